---- MODULE MailboxObs ----
\* Property observers for real executions: the operators of MailboxProps evaluated on what the
\* application and the simulated server actually saw in each recorded run (one NDJSON line per run).
\* The observer constrains nothing; it prints one verdict vector per run.
EXTENDS MailboxProps, Json, IOUtils, TLC, TLCExt

All == ndJsonDeserialize(IOEnv.OBS_FILE)

Cl(o) == DOMAIN o.cl
EvOf(o, c) == o.cl[c].ev
PeerOf(o, c) == CHOOSE d \in Cl(o) : d # c
Two(o) == Cardinality(Cl(o)) = 2
Recv(o, c) == ValuesOf(EvOf(o, c), "message")
ClosedSeen(o, c) == CountOf(EvOf(o, c), "closed") > 0
VerdictOf(o, c) == KindsOf(EvOf(o, c), "closed")[1].v

\* ---- C14
P_NoInternal(o) == o.internal = <<>> /\ \A c \in Cl(o) : o.cl[c].apiErr = <<>>
P_DocVerdict(o) == \A c \in Cl(o) : DocumentedVerdictEv(EvOf(o, c))
\* ---- C18
P_OnceEach(o) == \A c \in Cl(o) : OnceEachEv(EvOf(o, c))
P_Causal(o) == \A c \in Cl(o) : o.cl[c].ordered => CausalOrderEv(EvOf(o, c))
P_VersionsFirst(o) == o.orderPreserving => \A c \in Cl(o) : o.cl[c].ordered => VersionsFirstEv(EvOf(o, c))
P_LateGets(o) == \A c \in Cl(o) : LateGetsOK(o.cl[c].late, ClosedSeen(o, c))
\* ---- C03 / C02
P_InOrderOnce(o) == Two(o) => \A c \in Cl(o) : InOrderOnceSeq(Recv(o, c), o.cl[PeerOf(o, c)].sent)
P_VersionsHonest(o) == Two(o) => \A c \in Cl(o) :
    \A i \in 1..CountOf(EvOf(o, c), "versions") : ValuesOf(EvOf(o, c), "versions")[i] = "ver:" \o PeerOf(o, c)
\* every send_message issued was delivered (checked only on runs that ended quiescent, connected, unclosed)
P_AllDelivered(o) == (Two(o) /\ o.goal) => \A c \in Cl(o) : Recv(o, c) = o.cl[PeerOf(o, c)].sent
P_KeyEstablished(o) == (Two(o) /\ o.goal) => \A c \in Cl(o) : CountOf(EvOf(o, c), "verifier") = 1
\* every versions / message event was backed by a frame its named sender really added under exactly that phase and
\* that had been delivered to this client before the event (ground truth kept by the harness per delivered frame)
P_Backed(o) == \A c \in Cl(o) : o.cl[c].unbacked = <<>>
\* ---- C08
P_ClosedOnce(o) == \A c \in Cl(o) : ClosedOnceEv(EvOf(o, c))
P_NothingAfter(o) == \A c \in Cl(o) : NothingAfterClosed(EvOf(o, c))
P_Verdict(o) == \A c \in Cl(o) : (ClosedSeen(o, c) /\ VerdictOf(o, c) \in Verdicts) =>
    \E k \in DOMAIN o.cl[c].causes : VerdictOK(VerdictOf(o, c), o.cl[c].causes[k].cause, o.cl[c].causes[k].sawPeer)
P_Freed(o) == \A c \in Cl(o) : (ClosedSeen(o, c) /\ VerdictOf(o, c) \in Verdicts \ {"ServerConnectionError"}) =>
    /\ ~o.cl[c].atClose.claimed /\ ~o.cl[c].atClose.up
    /\ (o.cl[c].atClose.everOpened => (o.cl[c].atClose.closedMood = MoodOf(VerdictOf(o, c)) /\ ~o.cl[c].atClose.listening))
\* "the verdict is happy iff ..., LonelyError if ..., ...": with nobody forging or altering frames and no bug in the
\* application's own callbacks, the closed notification carries one of the verdicts of the statement - an internal error
\* in its place is a wrong verdict (and C14's business besides)
P_VerdictKnown(o) == \A c \in Cl(o) : (ClosedSeen(o, c) /\ ~o.tampered /\ ~o.appBug) => VerdictOf(o, c) \in Verdicts
P_CloseCompletes(o) == \A c \in Cl(o) : (o.cl[c].closeCalled /\ o.drained /\ ~o.cl[c].dead) => ClosedSeen(o, c)
\* ---- C01
P_KeyAgree(o) == Two(o) => \A c \in Cl(o) :
    LET d == PeerOf(o, c) IN
    /\ (o.match /\ o.cl[c].verifier # "-" /\ o.cl[d].verifier # "-") => o.cl[c].verifier = o.cl[d].verifier
    /\ (o.match /\ o.cl[c].verifier # "-" /\ o.cl[d].verifier # "-") => o.cl[c].derived = o.cl[d].derived
    /\ o.cl[c].derivedDistinct
    /\ (~o.match /\ o.bothCoded) => (o.cl[c].verifier = "-" /\ CountOf(EvOf(o, c), "versions") = 0 /\ CountOf(EvOf(o, c), "message") = 0)
    /\ (~o.match /\ o.cl[c].heard /\ o.drained) =>
           \/ (ClosedSeen(o, c) /\ VerdictOf(o, c) = "WrongPasswordError")
           \/ (~ClosedSeen(o, c) /\ o.cl[c].selfClosed = "WrongPasswordError")
    /\ (o.match /\ o.goal) => (o.cl[c].verifier # "-")
    \* with codes that differ nobody is ever told that all went well (whenever it closes, whatever it had heard by then)
    /\ (~o.match /\ o.bothCoded /\ ClosedSeen(o, c)) => VerdictOf(o, c) # "happy"

\* ---- C19 (code entry): only one of allocate/set/input ever takes effect; a malformed code is rejected
\*      before anything is sent.  codeApi: sequence of [call, res, sentAfter] in call order
P_OnlyOneCode(o) == \A c \in Cl(o) :
    LET api == o.cl[c].codeApi IN
    /\ Cardinality({i \in 1..Len(api) : api[i].res = "ok"}) <= 1
    /\ \A i, j \in 1..Len(api) : (i < j /\ api[i].res = "ok") => api[j].res \in {"OnlyOneCodeError", "KeyFormatError"}
    /\ \A i \in 1..Len(api) : api[i].res = "KeyFormatError" => api[i].sentAfter = 0
    /\ \A i \in 1..Len(api) : api[i].res \in {"ok", "OnlyOneCodeError", "KeyFormatError"}
    /\ CountOf(EvOf(o, c), "code") <= 1

\* ---- supplementary (no listed property): the WormholeStatus reports (statusHist: <<conn, key, code, events seen>>) never go
\*      backwards, and at rest the last report agrees with what the application was told
P_StatusSane(o) == \A c \in Cl(o) :
    LET h == o.cl[c].statusHist IN
    /\ StatusMonotoneSeq(h)
    /\ Len(h) > 0 => StatusConsistentEv(<<h[Len(h)][1], h[Len(h)][2], h[Len(h)][3]>>, EvOf(o, c), o.cl[c].mode = "delegated")

Names == <<"NoInternal", "DocVerdict", "OnceEach", "Causal", "VersionsFirst", "LateGets", "InOrderOnce",
           "VersionsHonest", "AllDelivered", "KeyEstablished", "ClosedOnce", "NothingAfter", "Verdict", "Freed",
           "CloseCompletes", "KeyAgree", "OnlyOneCode", "Backed", "StatusSane", "VerdictKnown">>
Vector(o) == <<P_NoInternal(o), P_DocVerdict(o), P_OnceEach(o), P_Causal(o), P_VersionsFirst(o), P_LateGets(o),
               P_InOrderOnce(o), P_VersionsHonest(o), P_AllDelivered(o), P_KeyEstablished(o), P_ClosedOnce(o),
               P_NothingAfter(o), P_Verdict(o), P_Freed(o), P_CloseCompletes(o), P_KeyAgree(o), P_OnlyOneCode(o), P_Backed(o), P_StatusSane(o), P_VerdictKnown(o)>>

\* ---- vacuity: was the predicate's antecedent true on this run (was there anything for it to judge)?  Same order as Names.
AnyCl(o, P(_)) == \E c \in Cl(o) : P(c)
Exercised(o) == <<
    TRUE,
    AnyCl(o, LAMBDA c : ClosedSeen(o, c)),
    AnyCl(o, LAMBDA c : Len(EvOf(o, c)) > 0),
    AnyCl(o, LAMBDA c : o.cl[c].ordered /\ Len(EvOf(o, c)) > 1),
    o.orderPreserving /\ AnyCl(o, LAMBDA c : CountOf(EvOf(o, c), "versions") > 0),
    AnyCl(o, LAMBDA c : \E i \in 1..Len(o.cl[c].late) : o.cl[c].late[i].closedBefore),
    Two(o) /\ AnyCl(o, LAMBDA c : Len(Recv(o, c)) > 0),
    AnyCl(o, LAMBDA c : CountOf(EvOf(o, c), "versions") > 0),
    Two(o) /\ o.goal /\ AnyCl(o, LAMBDA c : Len(o.cl[c].sent) > 0),
    Two(o) /\ o.goal,
    AnyCl(o, LAMBDA c : ClosedSeen(o, c)),
    AnyCl(o, LAMBDA c : ClosedSeen(o, c)),
    AnyCl(o, LAMBDA c : ClosedSeen(o, c) /\ VerdictOf(o, c) \in Verdicts),
    AnyCl(o, LAMBDA c : ClosedSeen(o, c) /\ VerdictOf(o, c) \in Verdicts \ {"ServerConnectionError"} /\ o.cl[c].atClose.everOpened),
    AnyCl(o, LAMBDA c : o.cl[c].closeCalled /\ o.drained /\ ~o.cl[c].dead),
    Two(o) /\ ((o.match /\ AnyCl(o, LAMBDA c : o.cl[c].verifier # "-")) \/ (~o.match /\ o.bothCoded)),
    AnyCl(o, LAMBDA c : Len(o.cl[c].codeApi) > 1),
    o.tampered /\ AnyCl(o, LAMBDA c : CountOf(EvOf(o, c), "versions") + CountOf(EvOf(o, c), "message") > 0),
    AnyCl(o, LAMBDA c : Len(o.cl[c].statusHist) > 1),
    ~o.tampered /\ ~o.appBug /\ AnyCl(o, LAMBDA c : ClosedSeen(o, c)) >>

VARIABLE k
Init == k = 0
Next == k < Len(All) /\ k' = k + 1 /\ PrintT(<<"OBS", All[k'].tid, Vector(All[k']), Exercised(All[k'])>>)
Spec == Init /\ [][Next]_k
====
