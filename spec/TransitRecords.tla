---- MODULE TransitRecords ----
\* C06: the record pipe of an established Transit connection (transit.Connection after negotiation).
\* One direction of one connection; the other direction is the same module instantiated again (the two
\* directions use different keys, which is what makes a reflected frame invalid: modelled by `dir`).
\*
\* The wire carries frames [len][nonce][SecretBox ciphertext].  The adversary has no key: it can delete,
\* duplicate (replay), reorder or cut whole frames, reflect a frame of the opposite direction, inject a
\* fabricated frame, or flip bits - in the nonce / ciphertext / tag (the frame no longer authenticates) or
\* in the length prefix (frame boundaries are lost from there on).
EXTENDS Naturals, Sequences, FiniteSets, SequencesExt, TLC

CONSTANTS MaxRecords,      \* send_record calls
          MaxManip,        \* adversary operations
          MaxReads,        \* receive_record() calls (queue mode)
          ConsumerMode,    \* BOOLEAN: the receiver attached a consumer expecting all MaxRecords records
          Mixed            \* BOOLEAN: the receiver reads single records and, in between, attaches consumers that expect the bytes of
                           \* the next k records (k = 0: an empty file) - what a file transfer does with the connection

VARIABLES sent,        \* payload ids passed to send_record, in order
          wire,        \* frames in flight: [nonce, pay, auth, len]  auth: authenticates under the receiver's key
          sendNonce,
          nextNonce,   \* receiver's next_receive_nonce
          delivered,   \* payload ids handed to the application (queue results or consumer writes)
          queued,      \* records received but not yet claimed by a receive_record()
          reads,       \* outstanding receive_record() Deferreds
          failedReads, \* receive_record() Deferreds that errbacked
          rstate,      \* "records" | "hung up" | "lost"
          desync,      \* a length prefix was altered: the receiver's framing no longer matches the sender's
          manip,       \* operations used
          tampered,    \* some frame at or before the receiver's position was manipulated
          consumerDone,\* "-" | "ok" | "err"   (Mixed: of the consumer attached last)
          cattached,   \* Mixed: a consumer is attached ...
          cleft,       \* ... and still expects the bytes of this many records
          last
vars == <<sent, wire, sendNonce, nextNonce, delivered, queued, reads, failedReads, rstate, desync, manip, tampered, consumerDone,
          cattached, cleft, last>>

Frame(n, p, a) == [nonce |-> n, pay |-> p, auth |-> a, len |-> "ok"]

Init == /\ sent = <<>> /\ wire = <<>> /\ sendNonce = 0 /\ nextNonce = 0 /\ delivered = <<>> /\ queued = <<>>
        /\ reads = 0 /\ failedReads = 0 /\ rstate = "records" /\ desync = FALSE /\ manip = 0 /\ tampered = FALSE
        /\ consumerDone = "-" /\ cattached = FALSE /\ cleft = 0 /\ last = <<"Init", 0, "-">>

\* ---- sender -------------------------------------------------------------------------------------
Send == /\ Len(sent) < MaxRecords
        /\ sent' = Append(sent, Len(sent) + 1)
        \* once the connection is gone the bytes go nowhere
        /\ wire' = IF rstate = "lost" THEN wire ELSE Append(wire, Frame(sendNonce, Len(sent) + 1, TRUE))
        /\ sendNonce' = sendNonce + 1
        /\ last' = <<"Send", Len(sent) + 1, "-">>
        /\ UNCHANGED <<nextNonce, delivered, queued, reads, failedReads, rstate, desync, manip, tampered, consumerDone, cattached, cleft>>

\* ---- adversary ------------------------------------------------------------------------------------
CanManip == manip < MaxManip /\ rstate # "lost"
\* (a bit flipped in the nonce field makes it another nonce - possibly the very one the receiver expects next - and the frame
\* no longer authenticates; MaxRecords + 1 stands for "some number that is never expected")
Flip(i, where) == /\ CanManip /\ i \in 1..Len(wire)
                  /\ \E n2 \in 0..(MaxRecords + 1) :
                       /\ (where = "nonce") => n2 # wire[i].nonce
                       /\ (where # "nonce") => n2 = wire[i].nonce
                       /\ wire' = [wire EXCEPT ![i] = IF where = "len" THEN [@ EXCEPT !.len = "bad"] ELSE [@ EXCEPT !.auth = FALSE, !.nonce = n2]]
                  /\ manip' = manip + 1 /\ last' = <<"Flip", i, where>>
                  /\ UNCHANGED <<sent, sendNonce, nextNonce, delivered, queued, reads, failedReads, rstate, desync, tampered, consumerDone, cattached, cleft>>
Delete(i) == /\ CanManip /\ i \in 1..Len(wire)
             /\ wire' = SubSeq(wire, 1, i - 1) \o SubSeq(wire, i + 1, Len(wire))
             /\ manip' = manip + 1 /\ last' = <<"Delete", i, "-">>
             /\ UNCHANGED <<sent, sendNonce, nextNonce, delivered, queued, reads, failedReads, rstate, desync, tampered, consumerDone, cattached, cleft>>
Swap(i) == /\ CanManip /\ i \in 1..(Len(wire) - 1)
           /\ wire' = [wire EXCEPT ![i] = wire[i + 1], ![i + 1] = wire[i]]
           /\ manip' = manip + 1 /\ last' = <<"Swap", i, "-">>
           /\ UNCHANGED <<sent, sendNonce, nextNonce, delivered, queued, reads, failedReads, rstate, desync, tampered, consumerDone, cattached, cleft>>
Replay(i) == /\ CanManip /\ i \in 1..Len(wire)
             /\ wire' = SubSeq(wire, 1, i) \o <<wire[i]>> \o SubSeq(wire, i + 1, Len(wire))
             /\ manip' = manip + 1 /\ last' = <<"Replay", i, "-">>
             /\ UNCHANGED <<sent, sendNonce, nextNonce, delivered, queued, reads, failedReads, rstate, desync, tampered, consumerDone, cattached, cleft>>
\* a fabricated frame, or a frame of the opposite direction reflected back: right shape, right nonce even,
\* but it does not authenticate under this direction's key
Inject(i, n) == /\ CanManip /\ i \in 1..(Len(wire) + 1) /\ n \in 0..MaxRecords
                /\ wire' = SubSeq(wire, 1, i - 1) \o <<Frame(n, 0, FALSE)>> \o SubSeq(wire, i, Len(wire))
                /\ manip' = manip + 1 /\ last' = <<"Inject", i, n>>
                /\ UNCHANGED <<sent, sendNonce, nextNonce, delivered, queued, reads, failedReads, rstate, desync, tampered, consumerDone, cattached, cleft>>
\* the connection is cut: everything still in flight is gone, the receiver sees connectionLost
Cut == /\ rstate # "lost"
       /\ wire' = <<>> /\ rstate' = "lost"
       /\ failedReads' = failedReads + reads /\ reads' = 0
       /\ consumerDone' = IF (ConsumerMode \/ cattached) /\ consumerDone = "-" THEN "err" ELSE consumerDone
       /\ UNCHANGED <<cattached, cleft>>          \* (the code does not detach a consumer at the loss: its Deferred fails, that is all)
       /\ last' = <<"Cut", 0, "-">>
       /\ UNCHANGED <<sent, sendNonce, nextNonce, delivered, queued, desync, manip, tampered>>

\* ---- receiver: one frame arrives (however fragmented) ------------------------------------------------
\* _decrypt_record: the nonce is checked first (BadNonce), then SecretBox.decrypt (CryptoError); either
\* exception makes dataReceived drop the connection ("hung up"); nothing is parsed after that.
Deliverable(f) == f.len = "ok" /\ f.nonce = nextNonce /\ f.auth
Recv ==
  /\ wire # <<>> /\ rstate # "lost"
  /\ LET f == Head(wire) IN
     /\ wire' = Tail(wire)
     /\ IF rstate = "hung up" \/ desync
        THEN UNCHANGED <<nextNonce, delivered, queued, reads, rstate, desync, tampered, consumerDone, cattached, cleft>>
        ELSE IF f.len = "bad"
        THEN desync' = TRUE /\ tampered' = TRUE
             /\ UNCHANGED <<nextNonce, delivered, queued, reads, rstate, consumerDone, cattached, cleft>>
        ELSE IF Deliverable(f)
        THEN /\ nextNonce' = nextNonce + 1
             /\ IF ConsumerMode
                THEN /\ delivered' = Append(delivered, f.pay)
                     /\ consumerDone' = IF Len(delivered) + 1 = MaxRecords THEN "ok" ELSE consumerDone
                     /\ UNCHANGED <<queued, reads, cattached, cleft>>
                ELSE IF cattached
                     \* the attached consumer is written this record; with its last byte it is done and detached
                     THEN /\ delivered' = Append(delivered, f.pay) /\ cleft' = cleft - 1
                          /\ cattached' = (cleft > 1) /\ consumerDone' = IF cleft = 1 THEN "ok" ELSE consumerDone
                          /\ UNCHANGED <<queued, reads>>
                ELSE IF reads > 0 /\ queued = <<>>
                     THEN delivered' = Append(delivered, f.pay) /\ reads' = reads - 1 /\ UNCHANGED <<queued, consumerDone, cattached, cleft>>
                     ELSE queued' = Append(queued, f.pay) /\ UNCHANGED <<delivered, reads, consumerDone, cattached, cleft>>
             /\ UNCHANGED <<rstate, desync, tampered>>
        \* (the nonce is compared - and the expected nonce advanced - before SecretBox.decrypt is tried: a frame that carries the
        \* right nonce and does not authenticate still moves next_receive_nonce; the connection is down either way)
        ELSE /\ rstate' = "hung up" /\ tampered' = TRUE
             /\ nextNonce' = IF f.nonce = nextNonce THEN nextNonce + 1 ELSE nextNonce
             /\ UNCHANGED <<delivered, queued, reads, desync, consumerDone, cattached, cleft>>
  /\ last' = <<"Recv", 0, "-">>
  /\ UNCHANGED <<sent, sendNonce, failedReads, manip>>

\* the application asks for the next record.  A record that arrived whole and authenticated before the connection went away
\* is still the application's: receive_record() hands it over also when it is called after the loss (queue first, as always).
\* (a receive_record() issued after the connection is gone *with nothing queued* is outside the statement: it never fires in
\* the code; not modelled)
Read == /\ ~ConsumerMode /\ ~cattached /\ reads + failedReads + Len(delivered) < MaxReads /\ (rstate # "lost" \/ queued # <<>>)
        /\ IF queued # <<>>
           THEN delivered' = Append(delivered, Head(queued)) /\ queued' = Tail(queued) /\ UNCHANGED <<reads, failedReads>>
           ELSE reads' = reads + 1 /\ UNCHANGED <<delivered, queued, failedReads>>
        /\ last' = <<"Read", 0, "-">>
        /\ UNCHANGED <<sent, wire, sendNonce, nextNonce, rstate, desync, manip, tampered, consumerDone, cattached, cleft>>

\* after "hung up" the transport closes; the receiver then sees connectionLost
LoseAfterHangup == /\ rstate = "hung up"
                   /\ rstate' = "lost" /\ wire' = <<>>
                   /\ failedReads' = failedReads + reads /\ reads' = 0
                   /\ consumerDone' = IF (ConsumerMode \/ cattached) /\ consumerDone = "-" THEN "err" ELSE consumerDone
                   /\ UNCHANGED <<cattached, cleft>>
                   /\ last' = <<"Lose", 0, "-">>
                   /\ UNCHANGED <<sent, sendNonce, nextNonce, delivered, queued, desync, manip, tampered>>

\* Mixed: the application - sequential: nothing of its own outstanding - attaches a consumer that expects the bytes of the next k
\* records (connectConsumer / writeToFile).  What is already queued goes to it first, oldest first, and no further than it expects:
\* a consumer that expects nothing is done at once and takes nothing - the record waiting behind it is the next read's.
MinOf2(a, b) == IF a < b THEN a ELSE b
Attach(k) == /\ Mixed /\ ~cattached /\ reads = 0 /\ rstate = "records" /\ ~desync
             /\ Len(delivered) + Len(queued) + k <= MaxRecords
             /\ LET m == MinOf2(k, Len(queued)) IN
                /\ delivered' = delivered \o SubSeq(queued, 1, m)
                /\ queued' = SubSeq(queued, m + 1, Len(queued))
                /\ cattached' = (m < k) /\ cleft' = k - m
                /\ consumerDone' = IF m = k THEN "ok" ELSE "-"
             /\ last' = <<"Attach", k, "-">>
             /\ UNCHANGED <<sent, wire, sendNonce, nextNonce, reads, failedReads, rstate, desync, manip, tampered>>

Next == Send \/ Recv \/ Read \/ Cut \/ LoseAfterHangup \/ (\E k \in 0..2 : Attach(k))
        \/ (\E i \in 1..(MaxRecords + MaxManip + 1) :
               Delete(i) \/ Swap(i) \/ Replay(i) \/ (\E w \in {"len", "nonce", "body", "tag"} : Flip(i, w))
               \/ (\E n \in 0..MaxRecords : Inject(i, n)))
Spec == Init /\ [][Next]_vars

\* ---- properties (the same operators are evaluated on recorded real executions by TransitObs) -----------
\* exactly the records sent, whole and in order
DeliveredPrefix(dlv, snt) == IsPrefix(dlv, snt)
PrefixInv == DeliveredPrefix(delivered \o queued, sent)
\* once a manipulated frame has been consumed nothing further is delivered and the connection goes down
NothingAfterTamper == [][tampered => (delivered' \o queued') = (delivered \o queued)]_vars
HungUpWhenBad == (tampered /\ ~desync) => rstate \in {"hung up", "lost"}
\* pending reads fail when the connection is lost
NoReadLeftBehind == rstate = "lost" => reads = 0
\* ... and the Deferred of a consumer that is still waiting for bytes fails too
ConsumerNotLeftBehind == ((ConsumerMode \/ cattached) /\ rstate = "lost") => consumerDone # "-"
\* Mixed: a consumer is attached exactly while it still expects something, and never together with an outstanding read
AttachedSane == /\ cattached <=> (cleft > 0)
                /\ (cattached /\ rstate # "lost") => (reads = 0 /\ consumerDone = "-" /\ queued = <<>>)
\* what arrived intact before the connection went away can still be read afterwards (nothing is lost *from the queue*)
QueuedObtainable == [][(last'[1] = "Read" /\ queued # <<>>) => delivered' = Append(delivered, Head(queued))]_vars
ConsumerTruth == (ConsumerMode /\ consumerDone = "ok") => delivered = sent /\ Len(sent) = MaxRecords
====
