---- MODULE Hints ----
\* C20: connection hints received from the peer are untrusted JSON.  Field values are abstracted to
\* their JSON kind; the module defines which hints become connection attempts (Dial) for the two
\* consumers (transit.Common.add_connection_hints + connect, and the Dilation `connection-hints`
\* message -> _hints.parse_hint -> Connector._use_hints) and how hints are encoded and parsed back.
\* TLC enumerates the whole abstract space, checks the invariants below and prints one line per
\* case; harness/props/hints.py concretises every case several ways and runs the real code on it.
EXTENDS Naturals, Sequences, FiniteSets, TLC

Kinds == {"str", "int", "float", "bool", "null", "list", "dict", "missing"}
\* hostnames also come as strings that can never name a host (empty, bracketed, with spaces or a colon, over-long, "..")
HostKinds == Kinds \cup {"oddstr"}
Types == {"direct-tcp-v1", "tor-tcp-v1", "relay-v1", "unknown-v9", "missing", "nonstr"}
\* what the "hints" member of a relay-v1 entry can be
SubKinds == {"missing", "null", "int", "str", "dict", "list"}

\* a TCP-style (sub)hint
\* twin: this hint names the very same endpoint (same hostname, port and priority values) as the hint before it in the list
Tcp(t, h, p, pr) == [type |-> t, hostname |-> h, port |-> p, priority |-> pr, subkind |-> "missing", sub |-> <<>>, twin |-> FALSE]
Twin(h) == [h EXCEPT !.twin = TRUE]
\* a relay hint whose "hints" member has kind sk; when sk = "list" its elements are `sub` (records, or "nonobj")
Relay(sk, sub) == [type |-> "relay-v1", hostname |-> "missing", port |-> "missing", priority |-> "missing", subkind |-> sk, sub |-> sub, twin |-> FALSE]
NonObj == [type |-> "nonobj", hostname |-> "missing", port |-> "missing", priority |-> "missing", subkind |-> "missing", sub |-> <<>>, twin |-> FALSE]

\* parse_tcp_v1_hint: a supported type, a string hostname, an integer port.  JSON true/false are
\* integers to Python's isinstance(); the property statement says "integer port", so such a hint is
\* neither required nor forbidden as an attempt (MayDial but not MustDial).
TcpTypes == {"direct-tcp-v1", "tor-tcp-v1"}
\* A hint that is well-formed in every member MUST be attempted; a malformed priority makes the hint
\* optional (the statement only bounds the attempts from above).
Strict(h)  == h.type \in TcpTypes /\ h.hostname = "str" /\ h.port = "int" /\ h.priority \in {"int", "float", "missing"}
Lenient(h) == h.type \in TcpTypes /\ h.hostname \in {"str", "oddstr"} /\ h.port \in {"int", "bool"}
\* (a string that cannot name a host may be tried - it cannot connect - or skipped; like every malformed hint it must not
\* raise nor keep the hints that accompany it from being tried)
\* without Tor only direct-tcp-v1 can be dialled
Dialable(h, tor) == h.type = "direct-tcp-v1" \/ (tor /\ h.type = "tor-tcp-v1")

SubHints(h) == IF h.type = "relay-v1" /\ h.subkind = "list" THEN {h.sub[i] : i \in 1..Len(h.sub)} ELSE {}
\* (hint, viaRelay) pairs that MUST / MAY be attempted for a list of received hints
MustDial(hs, tor) ==
    {<<hs[i], FALSE>> : i \in {j \in 1..Len(hs) : Strict(hs[j]) /\ Dialable(hs[j], tor)}}
    \cup {<<s, TRUE>> : s \in {s \in UNION {SubHints(hs[i]) : i \in 1..Len(hs)} : Strict(s) /\ Dialable(s, tor)}}
MayDial(hs, tor) ==
    {<<hs[i], FALSE>> : i \in {j \in 1..Len(hs) : Lenient(hs[j]) /\ Dialable(hs[j], tor)}}
    \cup {<<s, TRUE>> : s \in {s \in UNION {SubHints(hs[i]) : i \in 1..Len(hs)} : Lenient(s) /\ Dialable(s, tor)}}

\* ---- encode / parse of hints this side produces (always well-formed) ------------------------------------
Produced == {Tcp(t, "str", "int", "float") : t \in TcpTypes}
            \cup {Relay("list", <<Tcp("direct-tcp-v1", "str", "int", "float")>>),
                  Relay("list", <<Tcp("direct-tcp-v1", "str", "int", "float"), Tcp("direct-tcp-v1", "str", "int", "float")>>)}
\* encode_hint writes exactly these members; parse_hint reads them back
Encode(h) == h
Parse(h) == IF h.type = "relay-v1" THEN Relay("list", SelectSeq(h.sub, LAMBDA s : s.type # "nonobj" /\ Lenient(s)))
            ELSE IF Lenient(h) THEN h ELSE NonObj
RoundTrip == \A h \in Produced : Parse(Encode(h)) = h

\* ---- the enumerated space ---------------------------------------------------------------------------
AllTcp == {Tcp(t, h, p, pr) : t \in Types \ {"relay-v1"}, h \in HostKinds, p \in Kinds, pr \in Kinds}
Odd == Tcp("direct-tcp-v1", "oddstr", "int", "float")
\* sub-hints of relays: representative malformed and well-formed ones
SubChoices == {NonObj} \cup {Tcp(t, h, p, pr) : t \in {"direct-tcp-v1", "tor-tcp-v1", "unknown-v9", "missing", "nonstr"},
                                              h \in {"str", "int", "missing"}, p \in {"int", "str", "bool", "missing"},
                                              pr \in {"float", "str", "list", "dict", "missing", "null"}}
AllRelay == {Relay(sk, <<>>) : sk \in SubKinds}
            \cup {Relay("list", <<s>>) : s \in SubChoices}
            \cup {Relay("list", <<s1, s2>>) : s1 \in {Tcp("direct-tcp-v1", "str", "int", pr) : pr \in {"float", "str", "dict", "null"}},
                                              s2 \in {NonObj} \cup {Tcp("direct-tcp-v1", "str", "int", pr) : pr \in {"float", "int", "str", "list", "dict", "null", "missing"}}}
            \cup {Relay("list", <<Odd>>), Relay("list", <<Odd, Tcp("direct-tcp-v1", "str", "int", "float")>>),
                  Relay("list", <<Tcp("direct-tcp-v1", "str", "int", "float"), Odd>>)}
Singles == AllTcp \cup AllRelay
\* pairs: the interplay of priorities of different kinds between two otherwise valid hints
Good(pr) == Tcp("direct-tcp-v1", "str", "int", pr)
Pairs == {<<Good(p1), Good(p2)>> : p1 \in Kinds, p2 \in Kinds}
         \cup {<<Relay("list", <<Good(p1)>>), Relay("list", <<Good(p2)>>)>> : p1 \in Kinds \ {"missing"}, p2 \in Kinds \ {"missing"}}
         \cup {<<Good("float"), r>> : r \in AllRelay}
         \cup {<<Odd, Good("float")>>, <<Good("float"), Odd>>, <<Odd, Odd>>, <<Odd, Relay("list", <<Good("float")>>)>>}
         \* the same endpoint named twice: by hints of different types (one of which this side cannot use), by the same hint
         \* repeated, directly and through a relay - a usable hint stays usable whatever accompanies it
         \cup {<<Tcp(t, "str", "int", pr), Twin(Good(pr))>> : t \in {"tor-tcp-v1", "unknown-v9", "direct-tcp-v1", "missing"}, pr \in {"float", "missing"}}
         \cup {<<Good(pr), Twin(Tcp(t, "str", "int", pr))>> : t \in {"tor-tcp-v1", "unknown-v9"}, pr \in {"float", "missing"}}
         \cup {<<Tcp("tor-tcp-v1", "str", "int", "float"), Relay("list", <<Twin(Good("float"))>>)>>,
               <<Relay("list", <<Tcp("tor-tcp-v1", "str", "int", "float"), Twin(Good("float"))>>)>>,
               <<Good("float"), Relay("list", <<Twin(Good("float"))>>)>>,
               <<Relay("list", <<Tcp("tor-tcp-v1", "str", "int", "float")>>), Relay("list", <<Twin(Good("float"))>>)>>,
               <<Relay("list", <<Good("float")>>), Relay("list", <<Twin(Tcp("tor-tcp-v1", "str", "int", "float"))>>)>>}
Cases == {<<h>> : h \in Singles} \cup Pairs \cup {<<>>}

\* the safety statement on the abstract space: whatever is dialled has a string host and an int(-like) port
\* and a supported type
OnlyValidDialled == \A hs \in Cases : \A tor \in BOOLEAN : \A d \in MayDial(hs, tor) :
    d[1].hostname \in {"str", "oddstr"} /\ d[1].port \in {"int", "bool"} /\ d[1].type \in TcpTypes
MustWithinMay == \A hs \in Cases : \A tor \in BOOLEAN : MustDial(hs, tor) \subseteq MayDial(hs, tor)

\* one state per case, so that TLC's state count is the number of cases and each is printed once
VARIABLE case
Init == case \in Cases
Next == UNCHANGED case
Spec == Init /\ [][Next]_case
\* (the last component: what may be attempted by a client that has Tor - through Tor, which refuses addresses it cannot reach)
Report == PrintT(<<"CASE", case, {d \in MustDial(case, FALSE) : TRUE}, {d \in MayDial(case, FALSE) : TRUE}, {d \in MayDial(case, TRUE) : TRUE}>>)
CaseInv == (\A d \in MayDial(case, FALSE) : d[1].hostname \in {"str", "oddstr"}) /\ MustDial(case, FALSE) \subseteq MayDial(case, FALSE)
====
