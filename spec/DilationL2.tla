---- MODULE DilationL2 ----
\* C12: one direction of a Dilation L2 connection (dilation/connection.py: _Framer, _Record,
\* DilatedConnectionProtocol, encode_record/parse_record) as a token stream: optional relay reply, the
\* prologue line, the Noise handshake frame, the KCM frame, then record frames.  The receiving end accepts
\* a token only if it is exactly what a holder of the dilation key would have produced at that position;
\* anything else makes it drop the connection, and nothing after that reaches the manager.
\*
\* Record frames carry a record *class* (type x field-value class x payload-length class).  The model
\* treats encode/encrypt/frame/deframe/decrypt/parse as the identity on genuine tokens - that this is so
\* for every class, under any fragmentation, including payloads spanning several Noise packets, is what
\* the conformance executions establish on the real code; TLC enumerates the classes and the fault
\* positions and prints them.
EXTENDS Naturals, Sequences, FiniteSets, SequencesExt, TLC

CONSTANTS UseRelay,       \* BOOLEAN: the connection goes through a transit relay ("ok\n" comes first)
          NRecords,       \* records sent after the KCM
          Faults          \* fault kinds the adversary may apply (one per behaviour)

\* ---- record classes (enumerated for the round-trip tests) ---------------------------------------------------
Types == {"KCM", "Ping", "Pong", "Open", "Data", "Close", "Ack"}
IdClasses == {"0", "1", "max32"}                        \* 32-bit ids / seqnums: 0, 1, 2^32-1
LenClasses == {"0", "1", "65509", "65510", "65511", "65520", "131028", "131029", "131030", "131038", "131039", "196548"}
   \* Data payload lengths: the encoded message is 9 bytes longer, so 65510 fills one Noise packet exactly (65519) and 65511
   \* needs two; 131029 fills two exactly, 196548 three (every packet of the frame full: 2 * 65535 and 3 * 65535 bytes of frame)
NameClasses == {"ascii", "nonascii", "long"}            \* Open subprotocol names
RecordClasses ==
    {[t |-> "KCM", id |-> "-", seq |-> "-", x |-> "-"]}
    \cup {[t |-> t, id |-> "-", seq |-> "-", x |-> p] : t \in {"Ping", "Pong"}, p \in {"zero", "random"}}
    \cup {[t |-> "Open", id |-> i, seq |-> s, x |-> n] : i \in IdClasses, s \in IdClasses, n \in NameClasses}
    \cup {[t |-> "Data", id |-> i, seq |-> s, x |-> l] : i \in {"1", "max32"}, s \in {"0", "max32"}, l \in LenClasses}
    \cup {[t |-> "Close", id |-> i, seq |-> s, x |-> "-"] : i \in IdClasses, s \in IdClasses}
    \cup {[t |-> "Ack", id |-> "-", seq |-> s, x |-> "-"] : s \in IdClasses}
ReportClasses == \A rc \in RecordClasses : PrintT(<<"CLASS", rc>>)

\* ---- the token stream ------------------------------------------------------------------------------------------
\* tokens in the order a genuine peer sends them
Genuine == (IF UseRelay THEN <<"relayok">> ELSE <<>>) \o <<"prologue", "handshake", "kcm">> \o [i \in 1..NRecords |-> "record"]
FaultKinds == {"wrong-prologue", "wrong-relay", "wrong-key-handshake", "wrong-key-frame", "corrupt-frame", "truncate",
               "garbage-length", "unknown-type"}

VARIABLES pos,        \* how many genuine tokens the receiver has consumed
          state,      \* "open" | "dropped"
          toManager,  \* number of records handed to the manager (after selection)
          candidate,  \* the KCM was accepted: the connection became a candidate
          fault,      \* the fault applied: [kind, at] (NoFault = none)
          last
vars == <<pos, state, toManager, candidate, fault, last>>

NoFault == [kind |-> "-", at |-> 0]
Init == pos = 0 /\ state = "open" /\ toManager = 0 /\ candidate = FALSE /\ fault = NoFault /\ last = <<"Init", 0>>

\* which token positions a fault kind can hit
Applies(kind, i) ==
    LET tok == Genuine[i] IN
    CASE kind = "wrong-prologue"      -> tok = "prologue"
      [] kind = "wrong-relay"         -> tok = "relayok"
      [] kind = "wrong-key-handshake" -> tok = "handshake"
      [] kind = "wrong-key-frame"     -> tok \in {"kcm", "record"}
      [] kind = "corrupt-frame"       -> tok \in {"handshake", "kcm", "record"}
      [] kind = "truncate"            -> TRUE
      [] kind = "garbage-length"      -> tok \in {"handshake", "kcm", "record"}
      [] kind = "unknown-type"        -> tok = "record"
      [] OTHER -> FALSE

\* the adversary replaces the next token
Tamper(kind) == /\ fault = NoFault /\ state = "open" /\ pos < Len(Genuine) /\ kind \in Faults /\ Applies(kind, pos + 1)
                /\ fault' = [kind |-> kind, at |-> pos + 1]
                /\ last' = <<"Tamper", pos + 1>>
                /\ UNCHANGED <<pos, state, toManager, candidate>>

\* the next token arrives (in any fragmentation)
Receive == /\ state = "open" /\ pos < Len(Genuine)
           /\ IF fault # NoFault /\ fault.at = pos + 1
              THEN \* a truncated token is simply never completed: the receiver waits; everything else is rejected
                   /\ state' = IF fault.kind \in {"truncate", "garbage-length"} THEN "stalled" ELSE "dropped"
                   /\ UNCHANGED <<pos, toManager, candidate>>
              ELSE /\ pos' = pos + 1
                   /\ candidate' = (candidate \/ Genuine[pos + 1] = "kcm")
                   /\ toManager' = IF Genuine[pos + 1] = "record" THEN toManager + 1 ELSE toManager
                   /\ state' = state
           /\ last' = <<"Receive", pos + 1>>
           /\ UNCHANGED fault

Next == Receive \/ (\E k \in FaultKinds : Tamper(k))
Spec == Init /\ [][Next]_vars

\* ---- properties -------------------------------------------------------------------------------------------------
\* records reach the manager only from a connection whose prologue, handshake and KCM were all genuine
ManagerOnlyAfterKCM == toManager > 0 => candidate
\* nothing from the connection reaches the manager at or after the tampered token
NothingAfterFault == (fault # NoFault /\ state \in {"dropped", "stalled"}) =>
                        toManager = Cardinality({i \in 1..(fault.at - 1) : Genuine[i] = "record"})
\* a rejected token drops the connection
FaultDrops == [][(fault # NoFault /\ fault.at = pos + 1 /\ pos' = pos /\ state = "open" /\ last'[1] = "Receive") => state' \in {"dropped", "stalled"}]_vars
\* without a fault everything arrives
CleanDelivers == (fault = NoFault /\ pos = Len(Genuine)) => toManager = NRecords
====
