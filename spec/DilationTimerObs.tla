---- MODULE DilationTimerObs ----
\* Observer for executions of the real Leader Manager + TrafficTimer (C16).  One NDJSON line per run.
EXTENDS Naturals, Sequences, FiniteSets, Json, IOUtils, TLC, TLCExt

All == ndJsonDeserialize(IOEnv.OBS_FILE)
Sent(o, c) == {k \in 1..Len(o.pings) : o.pings[k].conn = c /\ ~o.pings[k].lost}
Answered(o, c) == {k \in Sent(o, c) : o.pings[k].answered > 0}
Unanswered(o, c) == Sent(o, c) \ Answered(o, c)
DroppedAt(o, c) == {o.dropped[i].at : i \in {j \in 1..Len(o.dropped) : o.dropped[j].conn = c}}
LastAnsweredSent(o, c) == IF Answered(o, c) = {} THEN 0
                          ELSE CHOOSE t \in {o.pings[k].sent : k \in Answered(o, c)} : \A k \in Answered(o, c) : o.pings[k].sent <= t

\* a connection whose peer answers every ping within one interval is never dropped by the monitor
P_ResponsiveNeverDropped(o) == \A i \in 1..Len(o.dropped) :
    \E k \in Sent(o, o.dropped[i].conn) : o.pings[k].answered = 0 /\ o.pings[k].sent + o.I <= o.dropped[i].at
\* a silent connection is dropped no later than the second expiry after the last answered ping
\* (evaluated at every step of the run: s ranges over the snapshots)
Snaps(o) == {o.snaps[i] : i \in 1..Len(o.snaps)}
UnansweredAt(o, c, t) == {k \in Sent(o, c) : o.pings[k].sent <= t /\ (o.pings[k].answered = 0 \/ o.pings[k].answered > t)}
P_SilentDropped(o) == \A s \in Snaps(o) : (s.conn > 0 /\ ~s.stopped) =>
    \A k \in UnansweredAt(o, s.conn, s.now) : (s.now > o.pings[k].sent + 2 * o.I) => (\E t \in DroppedAt(o, s.conn) : t <= s.now)
P_DroppedWithinThree(o) == \A i \in 1..Len(o.dropped) : \A k \in Unanswered(o, o.dropped[i].conn) :
    (o.pings[k].sent > LastAnsweredSent(o, o.dropped[i].conn) => o.dropped[i].at <= o.pings[k].sent + 2 * o.I)
       \/ \E k2 \in Unanswered(o, o.dropped[i].conn) : o.pings[k2].sent < o.pings[k].sent
\* monitoring stops with the connection / with dilation; never more than one timer
P_NoTimerWithoutConn(o) == \A s \in Snaps(o) : (s.conn = 0 \/ s.stopped) => s.timer = 0
P_OneTimer(o) == o.maxTimers <= 1
\* ... and resumes on the next connection: while a connection is in use (not stopped, not yet given up on by the
\* monitor) the interval timer is running
DroppedConns(o) == {o.dropped[i].conn : i \in 1..Len(o.dropped)}
P_Monitored(o) == \A s \in Snaps(o) : (s.conn > 0 /\ ~s.stopped /\ s.conn \notin DroppedConns(o)) => s.timer > 0
P_NoInternal(o) == o.internal = <<>>

VARIABLE k
Init == k = 0
Next == k < Len(All) /\ k' = k + 1
        /\ PrintT(<<"OBS", All[k'].tid, <<P_ResponsiveNeverDropped(All[k']), P_SilentDropped(All[k']), P_DroppedWithinThree(All[k']),
                                          P_NoTimerWithoutConn(All[k']), P_OneTimer(All[k']), P_NoInternal(All[k']), P_Monitored(All[k'])>>>>)
Spec == Init /\ [][Next]_k
====
