---- MODULE MailboxClient ----
\* One wormhole client: the thirteen Automat machines of src/wormhole (_boss _nameplate _mailbox
\* _send _order _key _receive _lister _allocator _input _code _terminator) composed the way
\* Boss._build_workers wires them, plus RendezvousConnector and the Wormhole API objects.
\*
\* "Automat interpreter": the transition TABLES come from the generated module Tables (extracted from
\* the working tree on every run); this module gives the generic run-time semantics (state is set
\* first, then the outputs run in order, each output may call other machines' inputs
\* synchronously and depth-first; an exception abandons the rest of the cascade but keeps all earlier
\* effects) and the hand-written meaning of each output method and plain dispatch method.
EXTENDS Naturals, Sequences, FiniteSets, TLC, Crypto, Tables

Tbl == [B |-> Tbl_B, N |-> Tbl_N, M |-> Tbl_M, S |-> Tbl_S, O |-> Tbl_O, K |-> Tbl_K, SK |-> Tbl_SK,
        R |-> Tbl_R, L |-> Tbl_L, A |-> Tbl_A, I |-> Tbl_I, C |-> Tbl_C, T |-> Tbl_T]
InitStates == [B |-> Init_B, N |-> Init_N, M |-> Init_M, S |-> Init_S, O |-> Init_O, K |-> Init_K, SK |-> Init_SK,
               R |-> Init_R, L |-> Init_L, A |-> Init_A, I |-> Init_I, C |-> Init_C, T |-> Init_T]

\* ---- frames of the call stack ---------------------------------------------------------------
\* args are always a record [x, y, z, w]: x, y, w strings, z a Body
Args(x, y, z) == [x |-> x, y |-> y, z |-> z, s |-> {}]
ArgsS(s) == [x |-> "-", y |-> "-", z |-> NoBody, s |-> s]
\* a wormhole code is carried as (x = words / password class, y = nameplate)
CodeStr(a) == a.y \o "-" \o a.x
NoArgs == Args("-", "-", NoBody)
In(m, n, a)   == [k |-> "in",   m |-> m, n |-> n, a |-> a]     \* call an @m.input
Out(m, n, a)  == [k |-> "out",  m |-> m, n |-> n, a |-> a]     \* run an @m.output
Call(m, n, a) == [k |-> "call", m |-> m, n |-> n, a |-> a]     \* plain method / continuation of an output

TxFrame(t, x, y, z) == [t |-> t, x |-> x, y |-> y, z |-> z, s |-> {}]

PhaseStr == <<"0", "1", "2", "3", "4">>
PhaseOf(n) == PhaseStr[n + 1]
IsNumPhase(p) == \E i \in 1..Len(PhaseStr) : PhaseStr[i] = p
NumOf(p) == (CHOOSE i \in 1..Len(PhaseStr) : PhaseStr[i] = p) - 1

\* ---- client record -------------------------------------------------------------------------
ClientInit(side, mode, appid) ==
  [ st |-> InitStates, side |-> side, mode |-> mode, appid |-> appid,
    didStart |-> FALSE, pwapp |-> "-", code |-> "-",
    nameplate |-> "-", mailbox |-> "-", mood |-> "-", tmood |-> "-",
    pend |-> <<>>, processed |-> {}, nextTx |-> 0, nextRx |-> 0, rxq |-> {},
    sendq |-> <<>>, orderq |-> <<>>, key |-> "-", rkey |-> "-", skey |-> "-", stash |-> NoBody,
    result |-> "empty", ws |-> FALSE, everConn |-> FALSE, stopping |-> FALSE, stoppedRC |-> FALSE,
    allocLen |-> 0, inputNameplates |-> {}, inputNp |-> "-", wordlist |-> FALSE, helper |-> FALSE,
    events |-> <<>>, fired |-> {}, closedCalls |-> 0, apiClosed |-> FALSE,
    reent |-> "-", reentFired |-> FALSE,
    status |-> [conn |-> "connecting", key |-> "nokey", code |-> "nocode"],   \* WormholeStatus as last reported (create() starts the first attempt)
    errs |-> <<>>, raised |-> "", logged |-> <<>>, stack |-> <<>>, tx |-> <<>>, lastRet |-> "-" ]

Push(c, frames) == [c EXCEPT !.stack = frames \o c.stack]
\* RendezvousConnector._tx: assert self._ws
Raise(c, what)  == [c EXCEPT !.stack = <<>>, !.raised = what]
Tx(c, fr)       == IF c.ws THEN [c EXCEPT !.tx = Append(@, fr)] ELSE Raise(c, "assert:RC._tx:_ws")
\* An application callback.  A delegate may call back into the wormhole from inside its callback:
\* `reent` = the kind of event whose handler was armed to call close() re-entrantly (depth-first,
\* i.e. before the remaining outputs of the transition that is delivering the event).
Event(c, k, v)  ==
    LET c1 == [c EXCEPT !.events = Append(@, [k |-> k, v |-> v])] IN
    IF c.mode = "delegated" /\ c.reent = k
    THEN [c1 EXCEPT !.reent = "-", !.reentFired = TRUE, !.stack = <<In("B", "close", NoArgs)>> \o @]
    ELSE c1
\* one-shot observers of _DeferredWormhole fire at most once; the delegate is called every time
OneShot(c, k, v) == IF c.mode = "deferred"
                    THEN IF k \in c.fired THEN c ELSE Event([c EXCEPT !.fired = @ \cup {k}], k, v)
                    ELSE Event(c, k, v)

RECURSIVE TxAll(_, _)
TxAll(c, pend) == IF pend = <<>> \/ c.raised # "" THEN c
                  ELSE TxAll(Tx(c, TxFrame("add", Head(pend)[1], "-", Head(pend)[2])), Tail(pend))

\* dict semantics of Mailbox._pending_outbound: overwrite keeps the position
PendPut(pend, ph, body) ==
    IF \E i \in 1..Len(pend) : pend[i][1] = ph
    THEN [i \in 1..Len(pend) |-> IF pend[i][1] = ph THEN <<ph, body>> ELSE pend[i]]
    ELSE Append(pend, <<ph, body>>)
PendDel(pend, ph) == SelectSeq(pend, LAMBDA e : e[1] # ph)

\* Boss.W_received: deliver in strict phase order, no gaps
RECURSIVE DeliverInOrder(_)
DeliverInOrder(c) ==
    IF \E e \in c.rxq : e[1] = c.nextRx
    THEN LET e == CHOOSE e \in c.rxq : e[1] = c.nextRx IN
         DeliverInOrder(Event([c EXCEPT !.rxq = @ \ {e}, !.nextRx = @ + 1], "message", e[2]))
    ELSE c

ValidNameplate(n) == n \in {"4", "5", "7"}       \* numeric nameplates of the model universe
\* _DeferredWormhole.closed / _DelegatedWormhole.closed
WClosed(c, res) == Event([c EXCEPT !.closedCalls = @ + 1], "closed", res)

\* ---- meaning of the output methods -------------------------------------------------------------
Effect(c, m, n, a) ==
  CASE \* ---------------- Boss
       m = "B" /\ n = "do_got_code"       -> OneShot(c, "code", CodeStr(a))
    [] m = "B" /\ n = "process_version"   -> OneShot(c, "versions", a.y)     \* D.got_wormhole_versions: no manager
    [] m = "B" /\ n = "S_send"            -> Push([c EXCEPT !.nextTx = @ + 1], <<In("S", "send", Args(PhaseOf(c.nextTx), a.x, NoBody))>>)
    [] m = "B" /\ n = "close_unwelcome"   -> Push([c EXCEPT !.result = "WelcomeError"], <<In("T", "close", Args("unwelcome", "-", NoBody))>>)
    [] m = "B" /\ n = "close_error"       -> Push([c EXCEPT !.result = "ServerError"], <<In("T", "close", Args("errory", "-", NoBody))>>)
    [] m = "B" /\ n = "close_scared"      -> Push([c EXCEPT !.result = "WrongPasswordError"], <<In("T", "close", Args("scary", "-", NoBody))>>)
    [] m = "B" /\ n = "close_lonely"      -> Push([c EXCEPT !.result = "LonelyError"], <<In("T", "close", Args("lonely", "-", NoBody))>>)
    [] m = "B" /\ n = "close_happy"       -> Push([c EXCEPT !.result = "happy"], <<In("T", "close", Args("happy", "-", NoBody))>>)
    [] m = "B" /\ n = "W_got_key"         -> OneShot(c, "key", a.x)
    [] m = "B" /\ n = "D_got_key"         -> c
    [] m = "B" /\ n = "W_got_verifier"    -> OneShot(c, "verifier", a.x)
    [] m = "B" /\ n = "W_received"        -> DeliverInOrder([c EXCEPT !.rxq = @ \cup {<<NumOf(a.x), a.y>>}])
    [] m = "B" /\ n = "D_received_dilate" -> c
    [] m = "B" /\ n = "W_close_with_error" -> WClosed([c EXCEPT !.result = a.x], a.x)
    [] m = "B" /\ n = "W_closed"          -> WClosed(c, c.result)
    [] m = "B" /\ n = "send_status_peer_key"      -> [c EXCEPT !.status.key = "alleged"]
    [] m = "B" /\ n = "send_status_confirmed_key" -> [c EXCEPT !.status.key = "confirmed"]
    [] m = "B" /\ n = "send_status_closed"        -> [c EXCEPT !.status.conn = "closed"]
       \* ---------------- Nameplate
    [] m = "N" /\ n = "record_nameplate"  -> [c EXCEPT !.nameplate = a.x]
    [] m = "N" /\ n = "record_nameplate_and_RC_tx_claim" -> Tx([c EXCEPT !.nameplate = a.x], TxFrame("claim", a.x, "-", NoBody))
    [] m = "N" /\ n = "RC_tx_claim"       -> Tx(c, TxFrame("claim", c.nameplate, "-", NoBody))
    [] m = "N" /\ n = "I_got_wordlist"    -> Push(c, <<In("I", "got_wordlist", NoArgs)>>)
    [] m = "N" /\ n = "M_got_mailbox"     -> Push(c, <<In("M", "got_mailbox", a)>>)
    [] m = "N" /\ n = "RC_tx_release"     -> IF c.nameplate = "-" THEN Raise(c, "assert:N.RC_tx_release:_nameplate")
                                             ELSE Tx(c, TxFrame("release", c.nameplate, "-", NoBody))
    [] m = "N" /\ n = "T_nameplate_done"  -> Push(c, <<In("T", "nameplate_done", NoArgs)>>)
    [] m = "N" /\ n = "send_status_code_allocated" -> [c EXCEPT !.status.code = "allocated"]
    [] m = "N" /\ n = "send_status_code_consumed"  -> [c EXCEPT !.status.code = "consumed"]
       \* ---------------- Mailbox
    [] m = "M" /\ n = "record_mailbox"    -> [c EXCEPT !.mailbox = a.x]
    [] m = "M" /\ n = "RC_tx_open"        -> IF c.mailbox = "-" THEN Raise(c, "assert:M.RC_tx_open:_mailbox")
                                             ELSE Tx(c, TxFrame("open", c.mailbox, "-", NoBody))
    [] m = "M" /\ n = "queue"             -> [c EXCEPT !.pend = PendPut(@, a.x, a.z)]
    [] m = "M" /\ n = "record_mailbox_and_RC_tx_open_and_drain" ->
            LET c1 == Tx([c EXCEPT !.mailbox = a.x], TxFrame("open", a.x, "-", NoBody)) IN TxAll(c1, c1.pend)
    [] m = "M" /\ n = "drain"             -> TxAll(c, c.pend)
    [] m = "M" /\ n = "RC_tx_add"         -> Tx(c, TxFrame("add", a.x, "-", a.z))
    [] m = "M" /\ n = "N_release_and_accept" -> Push(c, <<In("N", "release", NoArgs), Call("M", "accept2", a)>>)
    [] m = "M" /\ n = "RC_tx_close"       -> IF c.mood = "-" THEN Raise(c, "assert:M.RC_tx_close:_mood")
                                             ELSE Tx(c, TxFrame("close", c.mailbox, c.mood, NoBody))
    [] m = "M" /\ n = "dequeue"           -> [c EXCEPT !.pend = PendDel(@, a.x)]
    [] m = "M" /\ n = "record_mood"       -> [c EXCEPT !.mood = a.x]
    [] m = "M" /\ n = "record_mood_and_RC_tx_close" -> Tx([c EXCEPT !.mood = a.x], TxFrame("close", c.mailbox, a.x, NoBody))
    [] m = "M" /\ n \in {"ignore_mood_and_T_mailbox_done", "T_mailbox_done"} -> Push(c, <<In("T", "mailbox_done", NoArgs)>>)
       \* ---------------- Order
    [] m = "O" /\ n = "queue"             -> [c EXCEPT !.orderq = Append(@, <<a.x, a.y, a.z>>)]
    [] m = "O" /\ n = "notify_key"        -> Push(c, <<In("K", "got_pake", a)>>)
    [] m = "O" /\ n = "drain"             ->
            Push(c,
                 [i \in 1..Len(c.orderq) |-> Call("R", "got_message", Args(c.orderq[i][1], c.orderq[i][2], c.orderq[i][3]))]
                 \o <<Call("O", "clear_queue", NoArgs)>>)
    [] m = "O" /\ n = "deliver"           -> Push(c, <<Call("R", "got_message", a)>>)
       \* ---------------- Key / _SortedKey
    [] m = "K" /\ n = "stash_pake"        -> [c EXCEPT !.stash = a.z]
    [] m = "K" /\ n = "deliver_code"      -> Push(c, <<In("SK", "got_code", a)>>)
    [] m = "K" /\ n = "deliver_pake"      -> Push(c, <<Call("SK", "got_pake", a)>>)
    [] m = "K" /\ n = "deliver_code_and_stashed_pake" ->
            Push(c, <<In("SK", "got_code", a), Call("SK", "got_pake", Args("-", "pake", c.stash))>>)
    [] m = "SK" /\ n = "build_pake"       ->      \* SPAKE2_Symmetric(NFC(code), idSymmetric=appid).start()
            LET pw == CodeStr(a) \o "/" \o c.appid IN
            Push([c EXCEPT !.pwapp = pw], <<In("M", "add_message", Args("pake", "-", Pake(pw, c.side)))>>)
    [] m = "SK" /\ n = "scared"           -> Push(c, <<In("B", "scared", NoArgs)>>)
    [] m = "SK" /\ n = "compute_key"      ->
            \* (5a1e124: what SPAKE2 rejects - wrong length, not a group element, our own message reflected - scares the Boss)
            IF ~PakeUsable(c.side, a.z) THEN Push(c, <<In("B", "scared", NoArgs)>>)
            ELSE LET key == SessionKey(c.side, c.pwapp, a.z) IN
                 Push([c EXCEPT !.key = key],
                      <<In("B", "got_key", Args(key, "-", NoBody)),
                        In("M", "add_message", Args("version", "-", Enc(key, c.side, "version", "ver:" \o c.side))),
                        In("R", "got_key", Args(key, "-", NoBody))>>)
       \* ---------------- Receive
    [] m = "R" /\ n = "record_key"        -> [c EXCEPT !.rkey = a.x]
    [] m = "R" /\ n = "S_got_verified_key" -> IF c.rkey = "-" THEN Raise(c, "assert:R.S_got_verified_key:_key")
                                              ELSE Push(c, <<In("S", "got_verified_key", Args(c.rkey, "-", NoBody))>>)
    [] m = "R" /\ n = "W_happy"           -> Push(c, <<In("B", "happy", NoArgs)>>)
    [] m = "R" /\ n = "W_got_verifier"    -> Push(c, <<In("B", "got_verifier", Args(Verifier(c.rkey), "-", NoBody))>>)
    [] m = "R" /\ n = "W_got_message"     -> Push(c, <<Call("B", "got_message", a)>>)
    [] m = "R" /\ n = "W_scared"          -> Push(c, <<In("B", "scared", NoArgs)>>)
       \* ---------------- Send
    [] m = "S" /\ n = "queue"             -> [c EXCEPT !.sendq = Append(@, <<a.x, a.y>>)]
    [] m = "S" /\ n = "record_key"        -> [c EXCEPT !.skey = a.x]
    [] m = "S" /\ n = "drain"             ->
            Push(c,
                 [i \in 1..Len(c.sendq) |-> Call("S", "encrypt_and_send", Args(c.sendq[i][1], c.sendq[i][2], NoBody))]
                 \o <<Call("S", "clear_queue", NoArgs)>>)
    [] m = "S" /\ n = "deliver"           -> Push(c, <<Call("S", "encrypt_and_send", a)>>)
       \* ---------------- Terminator
    [] m = "T" /\ n = "close_nameplate"   -> Push(c, <<In("N", "close", NoArgs)>>)
    [] m = "T" /\ n = "close_mailbox"     -> Push(c, <<In("M", "close", a)>>)
    [] m = "T" /\ n \in {"ignore_mood_and_RC_stop", "RC_stop"} -> Push(c, <<Call("RC", "stop", NoArgs)>>)
    [] m = "T" /\ n = "stop_dilator"      -> Push(c, <<In("T", "stoppedD", NoArgs)>>)     \* no Manager: synchronous
    [] m = "T" /\ n = "B_closed"          -> Push(c, <<In("B", "closed", NoArgs)>>)
       \* ---------------- Allocator / Lister
    [] m = "A" /\ n = "stash"             -> [c EXCEPT !.allocLen = 2]
    [] m = "A" /\ n = "stash_and_RC_rx_allocate" -> Tx([c EXCEPT !.allocLen = 2], TxFrame("allocate", "-", "-", NoBody))
    [] m = "A" /\ n = "RC_tx_allocate"    -> Tx(c, TxFrame("allocate", "-", "-", NoBody))
    [] m = "A" /\ n = "build_and_notify"  ->      \* a.x = nameplate; the words are fresh random ones ("alloc" class)
            Push(c, <<In("C", "allocated", Args("alloc", a.x, NoBody))>>)
    [] m = "L" /\ n = "RC_tx_list"        -> Tx(c, TxFrame("list", "-", "-", NoBody))
    [] m = "L" /\ n = "I_got_nameplates"  -> Push(c, <<In("I", "got_nameplates", a)>>)
       \* ---------------- Code
    [] m = "C" /\ n = "do_set_code"       ->
            Push([c EXCEPT !.code = CodeStr(a)],
                 <<Call("N", "set_nameplate", Args(a.y, "-", NoBody)), In("B", "got_code", a), In("K", "got_code", a)>>)
    [] m = "C" /\ n = "do_start_input"    -> Push(c, <<In("I", "start", NoArgs)>>)
    [] m = "C" /\ n = "do_middle_input"   -> Push(c, <<Call("N", "set_nameplate", a)>>)
    [] m = "C" /\ n = "do_finish_input"   -> Push([c EXCEPT !.code = CodeStr(a)], <<In("B", "got_code", a), In("K", "got_code", a)>>)
    [] m = "C" /\ n = "do_start_allocate" -> Push(c, <<In("A", "allocate", NoArgs)>>)
    [] m = "C" /\ n = "do_finish_allocate" ->
            \* the code the Allocator built always starts with nameplate + "-" (the assert cannot fire)
            Push([c EXCEPT !.code = CodeStr(a)],
                 <<Call("N", "set_nameplate", Args(a.y, "-", NoBody)), In("B", "got_code", a), In("K", "got_code", a)>>)
       \* ---------------- Input
    [] m = "I" /\ n = "do_start"          -> Push([c EXCEPT !.helper = TRUE], <<In("L", "refresh", NoArgs)>>)
    [] m = "I" /\ n = "do_refresh"        -> Push(c, <<In("L", "refresh", NoArgs)>>)
    [] m = "I" /\ n = "record_nameplates" -> [c EXCEPT !.inputNameplates = a.s]
    [] m = "I" /\ n = "_get_nameplate_completions" -> [c EXCEPT !.lastRet = "completions"]
    [] m = "I" /\ n = "record_all_nameplates" -> Push([c EXCEPT !.inputNp = a.x], <<In("C", "got_nameplate", a)>>)
    [] m = "I" /\ n = "record_wordlist"   -> [c EXCEPT !.wordlist = TRUE]
    [] m = "I" /\ n = "notify_wordlist_waiters" -> c
    [] m = "I" /\ n = "no_word_completions" -> [c EXCEPT !.lastRet = "nowords"]
    [] m = "I" /\ n = "_get_word_completions" -> IF ~c.wordlist THEN Raise(c, "assert:I._get_word_completions:_wordlist")
                                                 ELSE [c EXCEPT !.lastRet = "words"]
    [] m = "I" /\ n \in {"raise_must_choose_nameplate1", "raise_must_choose_nameplate2"} -> Raise(c, "doc:MustChooseNameplateFirstError")
    [] m = "I" /\ n \in {"raise_already_chose_nameplate1", "raise_already_chose_nameplate2", "raise_already_chose_nameplate3"} ->
            Raise(c, "doc:AlreadyChoseNameplateError")
    [] m = "I" /\ n \in {"raise_already_chose_words1", "raise_already_chose_words2"} -> Raise(c, "doc:AlreadyChoseWordsError")
    [] m = "I" /\ n = "do_words"          ->
            \* a.x = words; code = nameplate + "-" + words
            Push(c, <<In("C", "finished_input", Args(a.x, c.inputNp, NoBody))>>)
    [] OTHER -> Raise(c, "unmodelled-output:" \o m \o "." \o n)

\* ---- plain (non-Automat) methods and continuations ------------------------------------------------
Dispatch(c, m, n, a) ==
  CASE m = "M" /\ n = "rx_message"  ->      \* a = (side, phase, body)
            IF a.x = c.side THEN Push(c, <<In("M", "rx_message_ours", Args(a.y, "-", a.z))>>)
            ELSE Push(c, <<In("M", "rx_message_theirs", a)>>)
    [] m = "M" /\ n = "accept2"     ->      \* second half of N_release_and_accept: dedup by phase only
            IF a.y \in c.processed THEN c
            ELSE Push([c EXCEPT !.processed = @ \cup {a.y}], <<Call("O", "got_message", a)>>)
    [] m = "O" /\ n = "got_message" ->
            IF a.y = "pake" THEN Push(c, <<In("O", "got_pake", a)>>) ELSE Push(c, <<In("O", "got_non_pake", a)>>)
    [] m = "O" /\ n = "clear_queue" -> [c EXCEPT !.orderq = <<>>]
    [] m = "S" /\ n = "clear_queue" -> [c EXCEPT !.sendq = <<>>]
    [] m = "SK" /\ n = "got_pake"   ->      \* bytes_to_dict / hexstr_to_bytes on text supplied by whoever wrote to the mailbox:
            \* (5a1e124) anything that does not parse is treated like a message without "pake_v1"
            IF a.z.k = "junk" \/ a.z.k = "enc" \/ a.z.k = "-" \/ a.z.k = "pakebad" THEN Push(c, <<In("SK", "got_pake_bad", NoArgs)>>)
            \* "pake" and "pakeinv" both carry a pake_v1 hex string
            ELSE Push(c, <<In("SK", "got_pake_good", a)>>)
    [] m = "R" /\ n = "got_message" ->      \* a = (side, phase, body)
            IF c.rkey = "-" THEN Raise(c, "assert:R.got_message:_key")
            ELSE IF Decrypts(c.rkey, a.x, a.y, a.z)
                 THEN Push(c, <<In("R", "got_message_good", Args(a.y, a.z.pt, NoBody))>>)
                 ELSE Push(c, <<In("R", "got_message_bad", NoArgs)>>)
    [] m = "B" /\ n = "got_message" ->      \* a = (phase, plaintext)
            IF a.x = "version" THEN Push(c, <<In("B", "_got_version", a)>>)
            ELSE IF IsNumPhase(a.x) THEN Push(c, <<In("B", "_got_phase", a)>>)
            ELSE [c EXCEPT !.logged = Append(@, "UnknownPhase:" \o a.x)]
    [] m = "S" /\ n = "encrypt_and_send" ->
            IF c.skey = "-" THEN Raise(c, "assert:S._encrypt_and_send:_key")
            ELSE Push(c, <<In("M", "add_message", Args(a.x, "-", Enc(c.skey, c.side, a.x, a.y)))>>)
    [] m = "N" /\ n = "set_nameplate" ->
            IF ~ValidNameplate(a.x) THEN Raise(c, "doc:KeyFormatError") ELSE Push(c, <<In("N", "_set_nameplate", a)>>)
    [] m = "API" /\ n = "raise"    -> Raise(c, a.x)
    [] m = "RC" /\ n = "ws_open"    -> Tx([c EXCEPT !.status.conn = "connected"], TxFrame("bind", c.side, c.appid, NoBody))
    [] m = "RC" /\ n = "rx_message" -> Push(c, <<Call("M", "rx_message", a)>>)
    [] m = "W" /\ n = "got_welcome" -> OneShot(c, "welcome", "ok")
    [] m = "RC" /\ n = "stop"       ->      \* ClientService.stopService(): not connected => Deferred already fired
            IF c.ws THEN [c EXCEPT !.stopping = TRUE]
            ELSE Push([c EXCEPT !.stopping = TRUE, !.stoppedRC = TRUE], <<In("T", "stoppedRC", NoArgs)>>)
    [] OTHER -> Raise(c, "unmodelled-call:" \o m \o "." \o n)

\* ---- the interpreter -----------------------------------------------------------------------------
Step(c) ==
  LET f  == Head(c.stack)
      c0 == [c EXCEPT !.stack = Tail(c.stack)] IN
  IF f.k = "in" THEN
       IF <<c.st[f.m], f.n>> \in DOMAIN Tbl[f.m]
       THEN LET row == Tbl[f.m][<<c.st[f.m], f.n>>] IN
            [c0 EXCEPT !.st[f.m] = row.next,
                       !.stack = [i \in 1..Len(row.outs) |-> Out(f.m, row.outs[i], f.a)] \o c0.stack]
       ELSE Raise(c0, "NoTransition:" \o f.m \o "." \o c.st[f.m] \o "." \o f.n)
  ELSE IF f.k = "out" THEN Effect(c0, f.m, f.n, f.a)
  ELSE Dispatch(c0, f.m, f.n, f.a)

RECURSIVE Run(_)
Run(c) == IF c.stack = <<>> THEN c ELSE Run(Step(c))

DocErrors == {"doc:KeyFormatError", "doc:OnlyOneCodeError", "doc:MustChooseNameplateFirstError",
              "doc:AlreadyChoseNameplateError", "doc:AlreadyChoseWordsError"}

\* An entry point called by the WebSocket layer (ws_open / ws_message): an exception is logged,
\* reported through Boss.error(e) and re-raised.  ws_close and timer callbacks have no such wrapper.
RunEntry(c, frames, wrapped) ==
  LET c1 == Run(Push(c, frames)) IN
  IF c1.raised = "" THEN c1
  ELSE LET c2 == [c1 EXCEPT !.errs = Append(@, c1.raised), !.raised = ""] IN
       IF wrapped
       THEN LET c3 == Run(Push(c2, <<In("B", "error", Args("Internal:" \o c1.raised, "-", NoBody))>>)) IN
            IF c3.raised = "" THEN c3 ELSE [c3 EXCEPT !.errs = Append(@, c3.raised), !.raised = ""]
       ELSE c2

\* An API call: a documented error is returned to the caller, anything else is an internal failure
\* that escapes to the application.
RunApi(c, frames) ==
  LET c1 == Run(Push(c, frames)) IN
  IF c1.raised = "" THEN [c1 EXCEPT !.lastRet = "ok"]
  ELSE IF c1.raised \in DocErrors THEN [c1 EXCEPT !.lastRet = c1.raised, !.raised = ""]
  ELSE [c1 EXCEPT !.errs = Append(@, c1.raised), !.lastRet = "escaped:" \o c1.raised, !.raised = ""]
====
