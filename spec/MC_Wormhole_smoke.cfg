SPECIFICATION Spec
CONSTANTS
  Clients <- MC_Clients
  Sides <- MC_Sides
  Nameplates <- MC_Nameplates
  Mode <- MC_Mode
  AppId <- MC_AppId
  CodeChoices <- MC_CodeChoices
  AllowAllocate <- MC_None
  AllowInput <- MC_None
  MaxSend = 0
  MaxDrops = 0
  MaxDup = 0
  MaxSwap = 0
  MaxInject = 0
  MaxTamper = 0
  InjectSet <- MC_InjectSet
  LateFrames = FALSE
  WelcomeErr = FALSE
  ConnFails = FALSE
  MaxCloseAt = 0
VIEW view
INVARIANT NoInternalError
INVARIANT DocumentedVerdict
INVARIANT OnceEach
INVARIANT CausalOrder
INVARIANT VersionsFirst
INVARIANT InOrderOnce
INVARIANT ClosedOnce
INVARIANT ServerFreedAtClose
INVARIANT NothingAfter
INVARIANT VerdictRight
INVARIANT MismatchSilent
INVARIANT KeyAgreement
INVARIANT VerifiedImpliesSameCode
INVARIANT NoForgery
CHECK_DEADLOCK FALSE
