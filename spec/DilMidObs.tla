---- MODULE DilMidObs ----
\* Observer for executions on two real Dilation Managers (C10 and C13): the properties of DilationL4.tla and
\* DilationSub.tla evaluated on what the applications on both sides saw.
EXTENDS Naturals, Sequences, FiniteSets, SequencesExt, Json, IOUtils, TLC, TLCExt

All == ndJsonDeserialize(IOEnv.OBS_FILE)

\* ---- C10
\* (an application that registers its listener late gets what was held for it subchannel by subchannel: the order promised is
\* then the order within each subchannel - open, everything written, close)
PerSubPrefix(o) == /\ Len(o.perSub.delivered) = Len(o.perSub.issued)
                   /\ \A i \in 1..Len(o.perSub.issued) : IsPrefix(o.perSub.delivered[i], o.perSub.issued[i])
\* the other direction at the same time (runs in which the receiving application answers each piece of data): what comes back
\* on a subchannel is a prefix of the answers to what was written on it - nothing twice, nothing out of order, nothing altered
EchoesPrefix(o) == \A i \in 1..Len(o.echoes) : IsPrefix(o.echoes[i].got, o.echoes[i].expected)
P_InOrderOnce(o) == /\ IF o.kind = "l4" /\ o.lateListen THEN PerSubPrefix(o) ELSE IsPrefix(o.delivered, o.issued)
                    /\ (o.kind = "l4" => EchoesPrefix(o) /\ o.echoErrors = <<>>)
P_Goal(o) == o.goal => /\ IF o.kind = "l4" /\ o.lateListen THEN o.perSub.delivered = o.perSub.issued ELSE o.delivered = o.issued
                       \* ... and each close has come back: the opener's application saw connectionLost for every subchannel it closed
                       /\ (o.kind = "l4" => o.lostAtOpener = o.closedByOpener)

\* ---- C13: o.ends maps "<id><o|a>" to [ev, peerWrote, errors]
E(o) == DOMAIN o.ends
Count(ev, k) == Cardinality({i \in 1..Len(ev) : ev[i][1] = k})
DataOf(ev) == SelectSeq(ev, LAMBDA x : x[1] = "data")
\* ... exactly once: at most once at any time, and - once everything in flight has arrived - every subchannel opened towards a
\* side that listens for its name has appeared there, and every subchannel somebody closed has been lost once on both sides
\* (missingOpens: what is missing)
P_OpensOnce(o) == /\ \A e \in E(o) : Count(o.ends[e].ev, "made") <= 1 /\ Count(o.ends[e].ev, "lost") <= 1
                  /\ (o.kind = "sub" => o.missingOpens = <<>>)
P_NothingAfterLost(o) == \A e \in E(o) : \A i, j \in 1..Len(o.ends[e].ev) : (o.ends[e].ev[i][1] = "lost" /\ i < j) => FALSE
P_DataInOrder(o) == \A e \in E(o) :
    LET got == [i \in 1..Len(DataOf(o.ends[e].ev)) |-> DataOf(o.ends[e].ev)[i][2]] IN IsPrefix(got, o.ends[e].peerWrote)
P_IdsDisjoint(o) == /\ \A i \in ToSet(o.scids.L) : i % 2 = 1
                    /\ \A i \in ToSet(o.scids.F) : i % 2 = 0
                    /\ Cardinality(ToSet(o.scids.L)) = Len(o.scids.L) /\ Cardinality(ToSet(o.scids.F)) = Len(o.scids.F)
P_UnexpectedRefused(o) == o.pendingUnexpected = 0
\* calls: the application's write / close calls on that end in order, each "ok" or "err"; closesSent: CLOSE records the
\* end's Manager was asked to send for it
P_WriteAfterCloseErrors(o) == /\ o.afterCloseOK
                              /\ \A e \in E(o) : \A i, j \in 1..Len(o.ends[e].calls) :
                                    (i < j /\ o.ends[e].calls[i] = <<"close", "ok">>) => o.ends[e].calls[j] # <<"write", "ok">>
P_CloseOnce(o) == \A e \in E(o) : o.ends[e].closesSent <= 1
P_NoInternal(o) == o.internal = <<>>

VARIABLE k
Init == k = 0
Next == k < Len(All) /\ k' = k + 1
        /\ PrintT(<<"OBS", All[k'].tid, <<P_InOrderOnce(All[k']), P_Goal(All[k']), P_OpensOnce(All[k']), P_NothingAfterLost(All[k']),
                                          P_DataInOrder(All[k']), P_IdsDisjoint(All[k']), P_UnexpectedRefused(All[k']),
                                          P_WriteAfterCloseErrors(All[k']), P_NoInternal(All[k']), P_CloseOnce(All[k'])>>>>)
Spec == Init /\ [][Next]_k
====
