---- MODULE TransitObs ----
\* Observer for real Transit record-pipe executions (C06): the operators of TransitRecords evaluated on
\* what the two real Connection objects did.  One NDJSON line per run.
EXTENDS Naturals, Sequences, SequencesExt, Json, IOUtils, TLC, TLCExt

All == ndJsonDeserialize(IOEnv.OBS_FILE)

\* o.sent, o.got: sequences of payload ids (900000 + n for bytes that were never sent as a record);
\* o.atTamper: number of records delivered when the first manipulated frame was handed to the receiver (-1: none)
P_Prefix(o) == IsPrefix(o.got, o.sent)
P_NothingAfter(o) == o.atTamper >= 0 => Len(o.got) = o.atTamper
P_Down(o) == (o.atTamper >= 0 /\ ~o.desync) => o.state \in {"hung up", "lost"}
P_ReadsFail(o) == o.state = "lost" => (o.pendingReads = 0 /\ (o.consumer => o.consumerDone # "-"))
\* the consumer is done exactly when it has been given the expected number of bytes, all of them genuine
\* (trailing empty records carry no bytes, so they need not have arrived)
P_Consumer(o) == o.consumerDone = "ok" => (IsPrefix(o.got, o.sent) /\ o.consumerBytes = o.expectedBytes /\ o.gotBytes = o.expectedBytes)
P_AllWhenClean(o) == /\ (o.atTamper < 0 /\ o.clean /\ o.state = "records") => IsPrefix(o.got, o.sent) /\ o.inflight + Len(o.got) = Len(o.sent)
                     \* an established connection that nobody tampered with, cut or closed stays up - however long the
                     \* transfer takes (envClosed: the schedule cut / closed it, or the application closed it)
                     /\ (o.atTamper < 0 /\ o.clean /\ ~o.envClosed) => o.state = "records"
P_NoInternal(o) == o.internal = <<>>
\* a read issued while records are waiting in the queue gets the oldest of them - also after the connection has gone
P_QueuedObtainable(o) == o.lateReadFailed = 0

VARIABLE k
Init == k = 0
Next == k < Len(All) /\ k' = k + 1
        /\ PrintT(<<"OBS", All[k'].tid, <<P_Prefix(All[k']), P_NothingAfter(All[k']), P_Down(All[k']), P_ReadsFail(All[k']),
                                          P_Consumer(All[k']), P_AllWhenClean(All[k']), P_NoInternal(All[k']), P_QueuedObtainable(All[k'])>>>>)
Spec == Init /\ [][Next]_k
====
