---- MODULE Codes ----
\* C19: wormhole codes.  The word lists are a frozen copy (PGPWords.tla).  This module defines, over
\* those lists, (a) the code an allocation produces as a function of the random bytes, (b) the
\* completions offered while a code is typed, (c) which codes are well-formed.  TLC checks the
\* structural facts that make the statement true (each list is a bijection from bytes, so one fresh
\* uniform byte per word gives uniform independent words; every completion extends what was typed and
\* ends in a word of the list the allocator would use at that position) and enumerates the whole
\* prefix space, printing the expected answer for every case; harness/props/codes.py runs the real
\* code on every printed case.
EXTENDS Naturals, Sequences, FiniteSets, SequencesExt, TLC, PGPWords

CONSTANT NumWords          \* how many words the code being typed has

\* ---- (a) allocation ------------------------------------------------------------------------------
\* word i (0-based) is taken from the odd list when i is even, from the even list otherwise
WordAt(i, b) == IF i % 2 = 0 THEN OddW[b + 1] ELSE EvenW[b + 1]
RECURSIVE WordsFrom(_, _)
WordsFrom(i, bytes) == IF bytes = <<>> THEN ""
                       ELSE WordAt(i, Head(bytes)) \o (IF Len(bytes) > 1 THEN "-" ELSE "") \o WordsFrom(i + 1, Tail(bytes))
Choose(nameplate, bytes) == nameplate \o "-" \o WordsFrom(0, bytes)

Bytes == 0..255
Distinct(list) == \A i, j \in 1..256 : i # j => list[i] # list[j]
ASSUME ListsAreBijections == Len(OddW) = 256 /\ Len(EvenW) = 256 /\ Distinct(OddW) /\ Distinct(EvenW)
ASSUME ListsDisjoint == \A i, j \in 1..256 : OddW[i] # EvenW[j]
ASSUME CharFormsAgree == Len(OddC) = 256 /\ Len(EvenC) = 256
\* two-word codes: the map bytes -> words is injective (65 536 cases)
ASSUME ChooseInjective2 == \A a, b \in Bytes : \A c, d \in {0, 1, 127, 128, 255} :
          (WordsFrom(0, <<a, b>>) = WordsFrom(0, <<c, d>>)) => (a = c /\ b = d)

\* ---- (b) completions ------------------------------------------------------------------------------
ListC(count) == IF count % 2 = 0 THEN OddC ELSE EvenC
ListW(count) == IF count % 2 = 0 THEN OddW ELSE EvenW
\* indices of the words offered when `count` complete words (count hyphens) precede the partial word `last`
Offered(count, last) == {i \in 1..256 : IsPrefix(last, ListC(count)[i])}
RECURSIVE Str(_)
Str(cs) == IF cs = <<>> THEN "" ELSE Head(cs) \o Str(Tail(cs))
Suffix(count) == IF count + 1 < NumWords THEN "-" ELSE ""

VARIABLES count, last
vars == <<count, last>>
Alphabet == {"a","b","c","d","e","f","g","h","i","j","k","l","m","n","o","p","q","r","s","t","u","v","w","x","y","z","#"}

Init == count = 0 /\ last = <<>>
\* type one more character: every character that keeps something on offer, plus one that does not ("#")
Type(ch) == /\ Offered(count, last) # {}
            /\ (ch = "#" \/ Offered(count, Append(last, ch)) # {})
            /\ last' = Append(last, ch) /\ count' = count
\* accept an offered completion and go on to the next word
Accept(i) == /\ i \in Offered(count, last) /\ count + 1 < NumWords
             /\ count' = count + 1 /\ last' = <<>>
Next == (\E ch \in Alphabet : Type(ch)) \/ (\E i \in 1..256 : Accept(i))
Spec == Init /\ [][Next]_vars

\* every completion extends what was typed, and is the word the allocator would use at this position
CompletionsExtend == \A i \in Offered(count, last) : IsPrefix(last, ListC(count)[i]) /\ Str(ListC(count)[i]) = ListW(count)[i]
\* a complete completion is in the image of Choose: some byte produces its last word at this position
CompletionsAllocatable == \A i \in Offered(count, last) : \E b \in Bytes : WordAt(count, b) = ListW(count)[i]
\* one line per case for the implementation tests
Report == PrintT(<<"CMP", count, Str(last), {ListW(count)[i] : i \in Offered(count, last)}, Suffix(count)>>)

\* ---- (c) well-formed codes ---------------------------------------------------------------------------
Digits == {"0","1","2","3","4","5","6","7","8","9"}
RECURSIVE UpToDash(_)
UpToDash(cs) == IF cs = <<>> \/ Head(cs) = "-" THEN <<>> ELSE <<Head(cs)>> \o UpToDash(Tail(cs))
HasSpace(cs) == \E i \in 1..Len(cs) : cs[i] = " "
NumericNameplate(np) == np # <<>> /\ \A i \in 1..Len(np) : np[i] \in Digits
ValidCode(cs) == ~HasSpace(cs) /\ NumericNameplate(UpToDash(cs))
CodeAlphabet == {"4", "0", "a", "-", " "}
CodesUpTo(n) == UNION {[1..k -> CodeAlphabet] : k \in 0..n}
ReportCodes(n) == \A cs \in CodesUpTo(n) : PrintT(<<"CODE", Str(cs), ValidCode(cs)>>)
ReportLists == PrintT(<<"LISTS", OddW, EvenW>>)
====
