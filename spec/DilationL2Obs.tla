---- MODULE DilationL2Obs ----
\* Observer for real Dilation L2 executions (C12): one NDJSON line per run of a real
\* DilatedConnectionProtocol pair.
EXTENDS Naturals, Sequences, Json, IOUtils, TLC, TLCExt

All == ndJsonDeserialize(IOEnv.OBS_FILE)

\* every record handed to an L2 connection is recovered identically by the peer
P_Identity(o) == IF o.kind = "roundtrip" THEN o.identical /\ o.got = o.sent ELSE o.identical
\* nothing from the connection reaches the manager at or after the bad token
P_NothingAfterFault(o) == (o.kind = "fault" /\ o.atFault >= 0) => o.got = o.atFault
\* a complete bad token drops the connection (a truncated one / absurd length leaves it waiting)
P_FaultDrops(o) == (o.kind = "fault" /\ o.atFault >= 0 /\ ~o.stalled) => o.dropped
\* records reach the manager only after a genuine KCM
P_OnlyAfterKCM(o) == o.got > 0 => o.candidate
P_NoInternal(o) == o.internal = <<>>

VARIABLE k
Init == k = 0
Next == k < Len(All) /\ k' = k + 1
        /\ PrintT(<<"OBS", All[k'].tid, <<P_Identity(All[k']), P_NothingAfterFault(All[k']), P_FaultDrops(All[k']),
                                          P_OnlyAfterKCM(All[k']), P_NoInternal(All[k'])>>>>)
Spec == Init /\ [][Next]_k
====
