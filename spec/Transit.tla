---- MODULE Transit ----
\* C07: Transit connection selection.  A TransitSender (S) and a TransitReceiver (R) run connect();
\* several contending TCP links exist (direct in either direction, through a relay, from strangers or from
\* a peer holding another key).  Each link end runs transit.Connection's negotiation state machine
\* (string states "relay" "start" "handshake" "wait-for-decision" "go" "nevermind" "records" "hung up");
\* Common.connection_ready / _winner implement the sender's choice; there_can_be_only_one cancels losers.
\*
\* Units on the wire (one per transport.write of the code):  "PR" please-relay line, "ok" relay reply,
\* "SH"/"RH" sender/receiver handshake made with the transit key, "SHx"/"RHx" the same made with another
\* key, "go", "nevermind", "junk".  A unit may arrive split: DeliverPart hands over a proper prefix first.
EXTENDS Naturals, Sequences, FiniteSets, TLC

CONSTANTS Links,        \* set of link names
          Kind,         \* [Links -> {"s2r", "r2s", "relay", "strangerS", "strangerR", "wrongkeyS", "wrongkeyR",
                        \*            "evilrelayS", "evilrelayR", "altsenderR"}]
                        \* evilrelayX: party X dials a relay it was given a hint for (the hint came with the peer's hints, or the
                        \*   TCP connection to the honest relay is intercepted - it is not authenticated); that relay is the
                        \*   outsider: Script is what it sends back after the please-relay line ("ok" and whatever follows).
                        \* altsenderR: a key holder of another implementation plays the sender's part towards R exactly as
                        \*   the protocol documents it, including the losing branch "nevermind" (the Python sender cancels
                        \*   its losing contenders instead; see ConsumeOn)
          Script,       \* [Links -> sequence of units] what a stranger / wrong-key peer sends, in order
          AllowCut,     \* BOOLEAN: the network may cut links
          AllowPartial  \* BOOLEAN: units may arrive in two pieces

\* which of our two parties terminate a link.  Strangers talk to one party only.
HasS(l) == Kind[l] \in {"s2r", "r2s", "relay", "strangerS", "wrongkeyS", "evilrelayS"}
HasR(l) == Kind[l] \in {"s2r", "r2s", "relay", "strangerR", "wrongkeyR", "evilrelayR", "altsenderR"}
Honest(l) == Kind[l] \in {"s2r", "r2s", "relay"}
KeyHolder(l) == Honest(l) \/ Kind[l] = "altsenderR"
ViaRelay(l) == Kind[l] \in {"relay", "evilrelayS", "evilrelayR"}

VARIABLES
  st,        \* [Links -> [S |-> state, R |-> state]]   "-" = no such end / not connected yet
  buf,       \* [Links -> [S |-> units received but not yet consumed (only a partial prefix marker), R |-> ...]]
  wire,      \* [Links -> [toS |-> Seq(unit), toR |-> Seq(unit)]]
  sent,      \* [Links -> [S |-> Seq(unit), R |-> Seq(unit)]] everything each of our ends wrote (history)
  got,       \* [Links -> [S |-> Seq(unit), R |-> Seq(unit)]] complete units each of our ends consumed (history)
  winner,    \* S's Common._winner: a link or "-"
  result,    \* [S |-> link | "-" | "failed", R |-> ...]  what connect() returned
  started,   \* [S |-> BOOLEAN, R |-> BOOLEAN] connect() has been called (the listener exists from get_connection_hints() on,
             \* so an inbound connection may arrive - and win - before the local connect())
  rwin,      \* the link on which R's negotiation succeeded first ("-" = none): what R's listener Deferred fired with
  scriptPos, \* [Links -> Nat] how much of Script the outsider has sent
  deadline,  \* [S |-> BOOLEAN, R |-> BOOLEAN] the 2*TIMEOUT timer of that party has fired
  last
vars == <<st, buf, wire, sent, got, winner, rwin, result, started, scriptPos, deadline, last>>

Party == {"S", "R"}
Other(p) == IF p = "S" THEN "R" ELSE "S"
Dir(p) == IF p = "S" THEN "toS" ELSE "toR"
MyHS(p) == IF p = "S" THEN "SH" ELSE "RH"
ExpectHS(p) == IF p = "S" THEN "RH" ELSE "SH"
HasEnd(l, p) == IF p = "S" THEN HasS(l) ELSE HasR(l)
\* the far end of p's end of link l is our other party (TRUE) or an outsider driven by Script (FALSE)
PeerIsOurs(l) == Honest(l)

Init ==
  /\ st = [l \in Links |-> [S |-> "-", R |-> "-"]]
  /\ buf = [l \in Links |-> [S |-> "", R |-> ""]]
  /\ wire = [l \in Links |-> [toS |-> <<>>, toR |-> <<>>]]
  /\ sent = [l \in Links |-> [S |-> <<>>, R |-> <<>>]]
  /\ got = [l \in Links |-> [S |-> <<>>, R |-> <<>>]]
  /\ winner = "-" /\ result = [S |-> "-", R |-> "-"] /\ started = [S |-> FALSE, R |-> FALSE] /\ rwin = "-"
  /\ scriptPos = [l \in Links |-> 0] /\ deadline = [S |-> FALSE, R |-> FALSE]
  /\ last = <<"Init", "-", "-">>

Closed(s) == s \in {"hung up", "lost"}
Live(s) == s \notin {"-", "hung up", "lost"}

\* ---- writing ---------------------------------------------------------------------------------------
\* p's end of l writes unit u: it travels towards the other end (our other party, or the outsider who ignores it)
Write(w, s, l, p, u) ==
  [w2 |-> IF PeerIsOurs(l) THEN [w EXCEPT ![l][Dir(Other(p))] = Append(@, u)] ELSE w,
   s2 |-> [s EXCEPT ![l][p] = Append(@, u)]]

\* ---- TCP connection established: both ends (if ours) start negotiating -------------------------------
\* relay links: each of our ends first sends its please-relay line and waits for "ok"
StartState(l) == IF ViaRelay(l) THEN "relay" ELSE "handshake"
StartUnit(l, p) == IF ViaRelay(l) THEN "PR" ELSE MyHS(p)
\* who dials: S for s2r, R for r2s, both for the relay, the outsider for the rest; dialling happens in connect()
DialersStarted(l) == CASE Kind[l] = "s2r" -> started.S [] Kind[l] = "r2s" -> started.R
                       [] Kind[l] = "relay" -> started.S /\ started.R
                       [] Kind[l] = "evilrelayS" -> started.S [] Kind[l] = "evilrelayR" -> started.R [] OTHER -> TRUE
Established(l) ==
  /\ DialersStarted(l) /\ st[l].S = "-" /\ st[l].R = "-"
  \* a party that is done no longer dials or accepts (its listener stops when the listener Deferred fires)
  /\ \A p \in Party : (result[p] = "-" /\ (IF p = "S" THEN winner ELSE rwin) = "-") \/ ~HasEnd(l, p)
  /\ st' = [st EXCEPT ![l] = [S |-> IF HasS(l) THEN StartState(l) ELSE "-", R |-> IF HasR(l) THEN StartState(l) ELSE "-"]]
  /\ LET w1 == IF HasS(l) THEN Write(wire, sent, l, "S", StartUnit(l, "S")) ELSE [w2 |-> wire, s2 |-> sent]
         w2 == IF HasR(l) THEN Write(w1.w2, w1.s2, l, "R", StartUnit(l, "R")) ELSE w1 IN
     wire' = w2.w2 /\ sent' = w2.s2
  /\ last' = <<"Established", l, "-">>
  /\ UNCHANGED <<buf, got, winner, rwin, result, started, scriptPos, deadline>>

\* the relay has both please-relay lines: it answers "ok" to both and from then on only forwards
RelayOk(l) ==
  /\ Kind[l] = "relay" /\ wire[l].toS # <<>> /\ wire[l].toR # <<>>
  /\ Head(wire[l].toS) = "PR" /\ Head(wire[l].toR) = "PR"
  /\ wire' = [wire EXCEPT ![l] = [toS |-> <<"ok">> \o Tail(@.toS), toR |-> <<"ok">> \o Tail(@.toR)]]
  /\ last' = <<"RelayOk", l, "-">>
  /\ UNCHANGED <<st, buf, sent, got, winner, rwin, result, started, scriptPos, deadline>>

\* ---- cancel every other contender of party p (there_can_be_only_one._succeeded / cancel) ----------------
CancelOthers(s, p, keep) ==
  [l \in Links |-> IF l # keep /\ HasEnd(l, p) /\ Live(s[l][p]) THEN [s[l] EXCEPT ![p] = "hung up"] ELSE s[l]]

\* ---- one complete unit u is consumed by p's end of link l ------------------------------------------------
\* returns the new [st, wire, sent, winner, result]
ConsumeOn(S, l, p, u) ==
  LET s0 == S.st[l][p] IN
  CASE s0 = "relay" ->
         IF u = "ok"
         THEN LET w == Write(S.wire, S.sent, l, p, MyHS(p)) IN
              [st |-> [S.st EXCEPT ![l][p] = "handshake"], wire |-> w.w2, sent |-> w.s2, winner |-> S.winner, result |-> S.result]
         ELSE [st |-> [S.st EXCEPT ![l][p] = "hung up"], wire |-> S.wire, sent |-> S.sent, winner |-> S.winner, result |-> S.result]
    [] s0 = "handshake" ->
         IF u # ExpectHS(p)
         THEN [st |-> [S.st EXCEPT ![l][p] = "hung up"], wire |-> S.wire, sent |-> S.sent, winner |-> S.winner, result |-> S.result]
         ELSE IF p = "R"
         THEN [st |-> [S.st EXCEPT ![l][p] = "wait-for-decision"], wire |-> S.wire, sent |-> S.sent, winner |-> S.winner, result |-> S.result]
         ELSE IF S.winner = "-"
         THEN \* connection_ready: this one wins; "go" is written, negotiation succeeds, connect() fires,
              \* every other contender of S is cancelled
              LET w == Write(S.wire, S.sent, l, p, "go") IN
              [st |-> CancelOthers([S.st EXCEPT ![l][p] = "records"], "S", l), wire |-> w.w2, sent |-> w.s2,
               winner |-> l, result |-> [S.result EXCEPT !.S = IF @ = "-" /\ started.S THEN l ELSE @]]
         ELSE LET w == Write(S.wire, S.sent, l, p, "nevermind") IN
              [st |-> [S.st EXCEPT ![l][p] = "hung up"], wire |-> w.w2, sent |-> w.s2, winner |-> S.winner, result |-> S.result]
    [] s0 = "wait-for-decision" ->
         IF u = "go"
         THEN [st |-> CancelOthers([S.st EXCEPT ![l][p] = "records"], "R", l), wire |-> S.wire, sent |-> S.sent, winner |-> S.winner,
               result |-> [S.result EXCEPT !.R = IF @ = "-" /\ started.R THEN l ELSE @]]
         ELSE [st |-> [S.st EXCEPT ![l][p] = "hung up"], wire |-> S.wire, sent |-> S.sent, winner |-> S.winner, result |-> S.result]
    [] OTHER -> [st |-> S.st, wire |-> S.wire, sent |-> S.sent, winner |-> S.winner, result |-> S.result]    \* records / hung up: not negotiation

Cur == [st |-> st, wire |-> wire, sent |-> sent, winner |-> winner, result |-> result]
Consume(l, p, u) == ConsumeOn(Cur, l, p, u)

Deliver(l, p) ==
  /\ Live(st[l][p]) /\ wire[l][Dir(p)] # <<>>
  /\ ~(Kind[l] = "relay" /\ Head(wire[l][Dir(p)]) = "PR")
  /\ LET u == Head(wire[l][Dir(p)])
         r == Consume(l, p, u) IN
     /\ st' = r.st /\ sent' = r.sent /\ winner' = r.winner /\ result' = r.result
     /\ rwin' = IF rwin = "-" /\ p = "R" /\ st[l].R = "wait-for-decision" /\ u = "go" THEN l ELSE rwin
     /\ wire' = [r.wire EXCEPT ![l][Dir(p)] = Tail(@)]
     /\ got' = [got EXCEPT ![l][p] = Append(@, u)]
     /\ buf' = [buf EXCEPT ![l][p] = ""]
  /\ last' = <<"Deliver", l, p>>
  /\ UNCHANGED <<started, scriptPos, deadline>>

\* two units arrive in one read (the network coalesced them): the end consumes the first and goes on with the second in the
\* same call, exactly as if they had come one after the other
DeliverJoined(l, p) ==
  /\ AllowPartial /\ Live(st[l][p]) /\ Len(wire[l][Dir(p)]) >= 2 /\ buf[l][p] = ""
  /\ st[l][p] \in {"relay", "handshake", "wait-for-decision"}
  /\ ~(Kind[l] = "relay" /\ \E i \in 1..2 : wire[l][Dir(p)][i] = "PR")
  /\ LET u1 == wire[l][Dir(p)][1]
         u2 == wire[l][Dir(p)][2]
         r1 == ConsumeOn(Cur, l, p, u1)
         r2 == ConsumeOn(r1, l, p, u2)
         rw1 == IF rwin = "-" /\ p = "R" /\ st[l].R = "wait-for-decision" /\ u1 = "go" THEN l ELSE rwin IN
     /\ Live(r1.st[l][p])
     /\ st' = r2.st /\ sent' = r2.sent /\ winner' = r2.winner /\ result' = r2.result
     /\ rwin' = IF rw1 = "-" /\ p = "R" /\ r1.st[l].R = "wait-for-decision" /\ u2 = "go" THEN l ELSE rw1
     /\ wire' = [r2.wire EXCEPT ![l][Dir(p)] = Tail(Tail(@))]
     /\ got' = [got EXCEPT ![l][p] = Append(Append(@, u1), u2)]
     /\ buf' = buf
  /\ last' = <<"DeliverJoined", l, p>>
  /\ UNCHANGED <<started, scriptPos, deadline>>

\* a proper prefix of the next unit arrives first: a correct prefix keeps the end waiting, a wrong one
\* (junk, or a handshake made with another key, which differs in its hex part) is rejected at once
PrefixOK(l, p, u) == CASE st[l][p] = "relay" -> u = "ok" [] st[l][p] = "handshake" -> u = ExpectHS(p)
                       [] st[l][p] = "wait-for-decision" -> u = "go" [] OTHER -> TRUE
DeliverPart(l, p) ==
  /\ AllowPartial /\ Live(st[l][p]) /\ wire[l][Dir(p)] # <<>> /\ buf[l][p] = ""
  /\ st[l][p] \in {"relay", "handshake", "wait-for-decision"}
  /\ ~(Kind[l] = "relay" /\ Head(wire[l][Dir(p)]) = "PR")
  /\ LET u == Head(wire[l][Dir(p)]) IN
     IF PrefixOK(l, p, u) \/ u \in {"SHx", "RHx"}       \* wrong-key handshakes share the textual prefix "transit sender "
     THEN buf' = [buf EXCEPT ![l][p] = "part"] /\ st' = st
     ELSE buf' = buf /\ st' = [st EXCEPT ![l][p] = "hung up"]
  /\ last' = <<"DeliverPart", l, p>>
  /\ UNCHANGED <<wire, sent, got, winner, rwin, result, started, scriptPos, deadline>>

\* ---- outsiders ------------------------------------------------------------------------------------------
OutsiderSend(l) ==
  /\ ~Honest(l) /\ scriptPos[l] < Len(Script[l])
  /\ \E p \in Party : HasEnd(l, p) /\ st[l][p] # "-"
  /\ LET p == IF HasS(l) THEN "S" ELSE "R"
         u == Script[l][scriptPos[l] + 1] IN
     wire' = [wire EXCEPT ![l][Dir(p)] = Append(@, u)]
  /\ scriptPos' = [scriptPos EXCEPT ![l] = @ + 1]
  /\ last' = <<"OutsiderSend", l, "-">>
  /\ UNCHANGED <<st, buf, sent, got, winner, rwin, result, started, deadline>>

\* an outsider dials a party that is already done (it has its result, or its listener has fired): the listener is
\* closed by then, so the connection is refused and nothing happens.  (scriptPos beyond the script marks "tried".)
LateDial(l) ==
  /\ ~Honest(l) /\ ~ViaRelay(l) /\ st[l].S = "-" /\ st[l].R = "-" /\ scriptPos[l] <= Len(Script[l])
  /\ LET p == IF HasS(l) THEN "S" ELSE "R" IN result[p] # "-" \/ (IF p = "S" THEN winner ELSE rwin) # "-"
  /\ scriptPos' = [scriptPos EXCEPT ![l] = Len(Script[l]) + 1]
  /\ last' = <<"LateDial", l, "-">>
  /\ UNCHANGED <<st, buf, wire, sent, got, winner, rwin, result, started, deadline>>

\* ---- loss -------------------------------------------------------------------------------------------------
\* a hung-up end closes its socket: the other end (if ours) sees connectionLost; so does a cut
PeerGone(l, p) ==
  /\ HasEnd(l, p) /\ Live(st[l][p])
  /\ (PeerIsOurs(l) /\ Closed(st[l][Other(p)]) /\ wire[l][Dir(p)] = <<>>) \/ AllowCut
  /\ st' = [st EXCEPT ![l][p] = "lost"]
  \* an orderly close arrives after everything the peer wrote; a cut loses whatever is in flight, both ways
  /\ wire' = IF PeerIsOurs(l) /\ Closed(st[l][Other(p)]) /\ wire[l][Dir(p)] = <<>>
             THEN wire ELSE [wire EXCEPT ![l] = [toS |-> <<>>, toR |-> <<>>]]
  /\ last' = <<"PeerGone", l, p>>
  /\ UNCHANGED <<buf, sent, got, winner, rwin, result, started, scriptPos, deadline>>

\* ---- connect() and its deadline ----------------------------------------------------------------------------
\* connect(): if an inbound connection has already won, the listener Deferred has fired: there_can_be_only_one
\* returns that connection at once and cancels the contenders connect() has just created
Won(p) == IF p = "S" THEN winner ELSE rwin
Start(p) == /\ ~started[p] /\ started' = [started EXCEPT ![p] = TRUE]
            /\ result' = [result EXCEPT ![p] = IF Won(p) # "-" THEN Won(p) ELSE @]
            /\ last' = <<"Start", p, "-">>
            /\ UNCHANGED <<st, buf, wire, sent, got, winner, rwin, scriptPos, deadline>>

\* _not_forever(2*TIMEOUT): cancel everything that is still negotiating; connect() fails unless it already fired
Deadline(p) ==
  /\ started[p] /\ ~deadline[p] /\ result[p] = "-"
  /\ deadline' = [deadline EXCEPT ![p] = TRUE]
  /\ result' = [result EXCEPT ![p] = "failed"]
  /\ st' = CancelOthers(st, p, "-")
  /\ last' = <<"Deadline", p, "-">>
  /\ UNCHANGED <<buf, wire, sent, got, winner, rwin, started, scriptPos>>

Next == (\E p \in Party : Start(p)) \/ (\E l \in Links : Established(l) \/ RelayOk(l) \/ OutsiderSend(l) \/ LateDial(l)
                                   \/ \E p \in Party : Deliver(l, p) \/ DeliverPart(l, p) \/ DeliverJoined(l, p) \/ PeerGone(l, p))
        \/ (\E p \in Party : Deadline(p))
Spec == Init /\ [][Next]_vars /\ WF_vars(Next)

\* ---- properties ------------------------------------------------------------------------------------------------
InSeq(u, s) == \E i \in 1..Len(s) : s[i] = u
\* the Sender confirms exactly one connection ...
AtMostOneGo == Cardinality({l \in Links : InSeq("go", sent[l].S)}) <= 1
\* ... and only after it has seen the complete, correct receiver handshake on it
GoOnlyAfterRH == \A l \in Links : InSeq("go", sent[l].S) => InSeq("RH", got[l].S)
\* the Receiver uses only a connection on which the correct sender handshake followed by go arrived
ReceiverNeedsGo == \A l \in Links : st[l].R = "records" => (InSeq("SH", got[l].R) /\ InSeq("go", got[l].R))
\* both results are the two ends of one link
SameLink == (result.S \in Links /\ result.R \in Links) => result.S = result.R
\* a party without the transit key is never selected
KeyHoldersOnly == \A p \in Party : result[p] \in Links => KeyHolder(result[p])
ResultIsRecords == \A p \in Party : result[p] \in Links => st[result[p]][p] \in {"records", "lost"}
\* every other connection is closed once a party has its result
OthersClosed == \A p \in Party : \A l \in Links :
    (result[p] # "-" /\ l # result[p] /\ HasEnd(l, p)) => ~Live(st[l][p])
\* connect() does not hang: after its deadline the party has an answer
DeadlineDecides == \A p \in Party : deadline[p] => result[p] # "-"
NoHang == <>(\A p \in Party : result[p] # "-")
\* the connection a party's negotiation settled on is what its connect() returns, whenever connect() is called
\* "exactly one": when nothing is cut and no deadline has struck, an honest link that got established and everything that was
\* written has arrived, both parties hold a link - however many other contenders (strangers, wrong-key peers, idle ones) there are
Quiescent == \A l \in Links : /\ wire[l].toS = <<>> /\ wire[l].toR = <<>> /\ buf[l].S = "" /\ buf[l].R = ""
                              /\ (~Honest(l) => (scriptPos[l] >= Len(Script[l]) \/ (st[l].S = "-" /\ st[l].R = "-")))
HonestWins == (~AllowCut /\ Quiescent /\ started.S /\ started.R /\ ~deadline.S /\ ~deadline.R
               /\ \E l \in Links : Honest(l) /\ (st[l].S # "-" \/ st[l].R # "-"))
              => (result.S \in Links /\ result.R \in Links)
WinnerReturned == \A p \in Party : (started[p] /\ Won(p) # "-") => result[p] = Won(p)
====
