---- MODULE SshKey ----
\* `wormhole ssh invite` / `wormhole ssh accept` (cli/cmd_ssh.py) and the one-message convenience API they stand on
\* (xfer_util.receive / xfer_util.send): the inviting side allocates a code, waits for one message, acknowledges it,
\* closes its wormhole and only then appends the received public key to ~/.ssh/authorized_keys; the accepting side
\* offers its public key, waits for the acknowledgement, closes and reports "Key sent.".
\* Beyond the listed properties (no listed property names these commands); reported under coverage.supplementary of C04.
\*
\* One action per observable step of the real code (harness/props/sshkey.py records exactly these from the real
\* cmd_ssh.invite() / cmd_ssh.accept() through a recording proxy around the wormhole object xfer_util creates, and from
\* the state of the sandboxed ~/.ssh after every step):
\*   Check(I, r)    invite looked at ~/.ssh before anything else: r = "go" | "stop" (no permission: it returns at once)
\*   Code(p)        the code is known to that side (I: allocated, on_code() has printed the command line for the other user;
\*                  A: set_code() with the code it was given - possibly not the right one)
\*   Send(p, k)     send_message() with a dict whose key is k: "offer" | "answer"
\*   Recv(p, k)     get_message() fired with such a dict (k = "wrong": it failed with WrongPasswordError)
\*   Close(p)       close() was called
\*   Done(p, o)     the command's Deferred fired: "ok" | "WrongPasswordError" | "Exception" | "stopped"
\* The file system is part of the state: `dir` (does ~/.ssh exist), `auth` (the lines of authorized_keys, or <<"absent">>).
EXTENDS Naturals, Sequences, FiniteSets, TLC

Auths == {"nodir", "nofile", "empty", "one", "unwritable"}    \* what ~/.ssh looks like when invite starts (unwritable: it cannot be opened for appending)
Shapes == {"three", "two", "padded"}                          \* the public key: "type data comment", "type data", with blank lines around
Configs == [auth : Auths, shape : Shapes, match : BOOLEAN, alien : BOOLEAN]
   \* alien: the accepting side is not `ssh accept` but something that sends a well-formed offer of another kind
   \* ({"offer": {"file": ...}}): the inviter must not install anything

VARIABLES cfg, pc, inbox, sent, dir, auth, out, last
vars == <<cfg, pc, inbox, sent, dir, auth, out, last>>

Other(p) == IF p = "I" THEN "A" ELSE "I"
Old == <<"old">>                         \* a line that was in authorized_keys before
Key == "key"                             \* the stripped public key as one line
InitAuth(a) == CASE a = "one" -> <<"old">> [] a = "unwritable" -> <<"unwritable">> [] a = "empty" -> <<>> [] OTHER -> <<"absent">>

Init == /\ cfg \in Configs
        /\ (cfg.alien => cfg.match)                       \* (an alien with the wrong code is just a wrong code)
        /\ pc = [I |-> "check", A |-> "idle"]
        /\ inbox = [I |-> <<>>, A |-> <<>>] /\ sent = [I |-> <<>>, A |-> <<>>]
        /\ dir = (cfg.auth # "nodir") /\ auth = InitAuth(cfg.auth)
        /\ out = [I |-> "-", A |-> "-"]
        /\ last = <<"Init", "-", "-">>

Goto(p, w) == pc' = [pc EXCEPT ![p] = w]
FS == <<dir, auth>>

\* invite: authorized_keys exists but cannot be opened for appending -> "No write permission", return before any wormhole exists
Check == /\ pc.I = "check"
         \* (as the code is: without ~/.ssh it announces "will be created" and then stops at os.listdir(): "Can't read";
         \*  the mkdir in Install below is what the code has and is never reached - found by the first validation run)
         /\ LET r == IF cfg.auth \in {"unwritable", "nodir"} THEN "stop" ELSE "go" IN
            /\ Goto("I", IF r = "stop" THEN "stopped" ELSE "alloc")
            /\ last' = <<"Check", "I", r>>
         /\ UNCHANGED <<cfg, inbox, sent, FS, out>>

\* the code: the inviter's comes from the server; the accepting user types what they were told (or something else) after that
Code(p) == /\ \/ p = "I" /\ pc.I = "alloc"
              \/ p = "A" /\ pc.A = "idle" /\ pc.I \notin {"check", "alloc", "stopped"}
           /\ Goto(p, IF p = "I" THEN "loop" ELSE "send_offer")
           /\ last' = <<"Code", p, "-">>
           /\ UNCHANGED <<cfg, inbox, sent, FS, out>>

SendKind(p) == CASE pc[p] = "send_offer" -> "offer" [] pc[p] = "send_answer" -> "answer" [] OTHER -> "-"
Send(p) == /\ SendKind(p) # "-"
           /\ LET k == SendKind(p) IN
              /\ sent' = [sent EXCEPT ![p] = Append(@, k)]
              \* (with codes that differ the frame is stored but can never be read: see WrongHeard)
              /\ inbox' = IF cfg.match THEN [inbox EXCEPT ![Other(p)] = Append(@, IF cfg.alien /\ k = "offer" THEN "alienoffer" ELSE k)] ELSE inbox
              /\ Goto(p, IF k = "offer" THEN "loop" ELSE "close")
              /\ last' = <<"Send", p, k>>
           /\ UNCHANGED <<cfg, FS, out>>

\* with codes that differ the first thing heard from the other side is undecryptable: get_message() fails, the command's
\* Deferred fails with it (xfer_util does not call close() on that path: the wormhole has closed by itself)
AfterRecv(p, k) ==
  CASE p = "I" /\ k = "offer" -> "send_answer"
    [] p = "I" -> "fail_ex"                  \* "Unknown offer type" / "Do not understand response"
    [] p = "A" /\ k = "answer" -> "close"
    [] OTHER -> "close_fail"                 \* send(): close first, then "Unknown answer"
Recv(p) == /\ pc[p] = "loop" /\ inbox[p] # <<>>
           /\ LET k == Head(inbox[p]) IN
              /\ inbox' = [inbox EXCEPT ![p] = Tail(@)]
              /\ Goto(p, AfterRecv(p, k))
              /\ last' = <<"Recv", p, IF k = "alienoffer" THEN "offer" ELSE k>>
           /\ UNCHANGED <<cfg, sent, FS, out>>

\* codes that differ: as soon as both sides have a code, each side's key differs from the other's, the peer's version
\* message is undecryptable, the wormhole closes by itself and the outstanding get_message() fails with WrongPasswordError
\* - whatever the applications have or have not sent
HasCode(p) == IF p = "I" THEN pc.I \notin {"check", "alloc", "stopped"} ELSE pc.A # "idle"
WrongHeard(p) == /\ ~cfg.match /\ pc[p] = "loop" /\ HasCode("I") /\ HasCode("A")
                 /\ Goto(p, "fail_wp")
                 /\ last' = <<"Recv", p, "wrong">>
                 /\ UNCHANGED <<cfg, inbox, sent, FS, out>>
Close(p) == /\ pc[p] \in {"close", "close_fail"}
            /\ Goto(p, IF pc[p] = "close" THEN "closed_ok" ELSE "fail_ex")
            /\ last' = <<"Close", p, "-">>
            /\ UNCHANGED <<cfg, inbox, sent, FS, out>>

\* invite, after xfer_util.receive() returned the key: mkdir ~/.ssh (0700) if missing, append "<stripped key>\n"
\* to authorized_keys (O_APPEND | O_CREAT, 0600)
Install == /\ pc.I = "closed_ok"
           /\ dir' = TRUE
           /\ auth' = (IF auth = <<"absent">> THEN <<Key>> ELSE Append(auth, Key))
           /\ Goto("I", "done_ok")
           /\ last' = <<"Install", "I", "-">>
           /\ UNCHANGED <<cfg, inbox, sent, out>>

Outcome(p) ==
  CASE pc[p] = "fail_wp" -> "WrongPasswordError"
    [] pc[p] = "fail_ex" -> "Exception"
    [] pc[p] = "stopped" -> "stopped"
    [] pc[p] = "done_ok" -> "ok"
    [] p = "A" /\ pc[p] = "closed_ok" -> "ok"
    [] OTHER -> "-"
Done(p) == /\ out[p] = "-" /\ Outcome(p) # "-"
           /\ out' = [out EXCEPT ![p] = Outcome(p)]
           /\ Goto(p, "finished")
           /\ last' = <<"Done", p, Outcome(p)>>
           /\ UNCHANGED <<cfg, inbox, sent, FS>>

Next == Check \/ Install \/ \E p \in {"I", "A"} : Code(p) \/ Send(p) \/ Recv(p) \/ WrongHeard(p) \/ Close(p) \/ Done(p)
Spec == Init /\ [][Next]_vars /\ WF_vars(Next)

\* ---- properties ---------------------------------------------------------------------------------------------------------
InSeq(k, s) == \E i \in 1..Len(s) : s[i] = k
Before == InitAuth(cfg.auth)
Installed == auth = (IF Before = <<"absent">> THEN <<Key>> ELSE Append(Before, Key))
\* authorized_keys only ever grows by the one key, whatever happens: what was there stays, in place
AppendOnly == auth = Before \/ Installed
AppendOnlyStep == [][auth' = auth \/ (auth = Before /\ Installed')]_vars
\* a key is installed only if it was received from a side that knows the code, and was acknowledged, and the wormhole closed
InstalledOnlyIfReceived == (auth # Before) => (cfg.match /\ ~cfg.alien /\ InSeq("offer", sent.A) /\ InSeq("answer", sent.I))
\* the inviter reports success exactly when the key is in place; the accepting side only after the acknowledgement
InviteOkIffInstalled == (out.I = "ok") => Installed
AcceptOkOnlyAcked == (out.A = "ok") => (InSeq("answer", sent.I) /\ cfg.match /\ ~cfg.alien)
\* the acknowledgement is sent only for a key offer
AckOnlyForKey == InSeq("answer", sent.I) => (cfg.match /\ ~cfg.alien)
\* with the wrong code nothing is installed and nobody succeeds
WrongCodeNothing == ~cfg.match => (auth = Before /\ out.I # "ok" /\ out.A # "ok")
\* no permission: nothing is started, nothing changes
StoppedTouchesNothing == (cfg.auth \in {"unwritable", "nodir"}) => (auth = Before /\ sent.I = <<>> /\ out.I \in {"-", "stopped"})
\* ~/.ssh is created only together with the key
DirOnlyWithKey == (dir /\ cfg.auth = "nodir") => Installed
\* an honest pair with the right code finishes with the key installed
Terminates == <>(out.I # "-")
HonestInstalls == (cfg.match /\ ~cfg.alien /\ cfg.auth \notin {"unwritable", "nodir"}) => <>(Installed /\ out.I = "ok" /\ out.A = "ok")
====
