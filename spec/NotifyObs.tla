---- MODULE NotifyObs ----
\* Observer for executions of the real notification layer (_DeferredWormhole's observers, SequenceObserver, OneShotObserver,
\* EmptyableSet, EventualQueue): one NDJSON line per run; ev is what the harness did and what its callbacks were told, in order.
\* Every event is a record [t, d, k, v, how]:  get (d, k) | below (k, v) | recv (v) | closed (how) | turn | fire (d, how, v) |
\* raise | add (v) | discard (v, how = "empties" when the harness's own copy of the set is empty afterwards)
EXTENDS Naturals, Sequences, FiniteSets, Json, IOUtils, TLC, TLCExt

All == ndJsonDeserialize(IOEnv.OBS_FILE)
OSet == {"welcome", "code", "key", "verifier", "versions"}
Max(a, b) == IF a < b THEN b ELSE a
MinOf(S) == CHOOSE x \in S : \A y \in S : x <= y
Idx(o) == 1..Len(o.ev)
Gets(o) == {i \in Idx(o) : o.ev[i].t = "get"}
Fires(o) == {i \in Idx(o) : o.ev[i].t = "fire"}
FiresOf(o, d) == {i \in Fires(o) : o.ev[i].d = d}
ClosedAt(o) == IF \E i \in Idx(o) : o.ev[i].t = "closed" THEN MinOf({i \in Idx(o) : o.ev[i].t = "closed"}) ELSE 0
Ixs(o) == [i \in 1..Len(o.ev) |-> i]
MsgGets(o) == SelectSeq(Ixs(o), LAMBDA i : o.ev[i].t = "get" /\ o.ev[i].k = "msg")
Recvs(o) == SelectSeq(Ixs(o), LAMBDA i : o.ev[i].t = "recv")
PosIn(s, x) == CHOOSE n \in DOMAIN s : s[n] = x
FirstBelow(o, k) == IF \E i \in Idx(o) : o.ev[i].t = "below" /\ o.ev[i].k = k
                    THEN MinOf({i \in Idx(o) : o.ev[i].t = "below" /\ o.ev[i].k = k}) ELSE 0
\* the event that decides the answer of the Deferred handed out at g (0: nothing has decided it yet)
Cause(o, g) ==
  LET k == o.ev[g].k  c == ClosedAt(o) IN
  IF k = "closed" THEN (IF c # 0 THEN Max(g, c) ELSE 0)
  ELSE IF k = "empty" THEN (IF \E x \in Idx(o) : x > g /\ o.ev[x].t = "discard" /\ o.ev[x].how = "empties"
                            THEN MinOf({x \in Idx(o) : x > g /\ o.ev[x].t = "discard" /\ o.ev[x].how = "empties"}) ELSE 0)
  ELSE IF c # 0 /\ g > c THEN g
  ELSE IF k = "msg" THEN (LET n == PosIn(MsgGets(o), g) IN IF n <= Len(Recvs(o)) THEN Max(g, Recvs(o)[n]) ELSE c)
  ELSE (IF FirstBelow(o, k) # 0 THEN Max(g, FirstBelow(o, k)) ELSE c)

P_OnceEach(o) == \A g \in Gets(o) : Cardinality(FiresOf(o, o.ev[g].d)) <= 1
\* never synchronously: a turn of the eventual queue begins between the call and the answer
P_NotSync(o) == \A j \in Fires(o) : \E g \in Gets(o) : o.ev[g].d = o.ev[j].d /\ g < j /\ \E x \in (g + 1)..(j - 1) : o.ev[x].t = "turn"
P_MsgFIFO(o) == \A n \in DOMAIN MsgGets(o) : \A j \in FiresOf(o, o.ev[MsgGets(o)[n]].d) :
                   o.ev[j].how = "cb" => (n <= Len(Recvs(o)) /\ o.ev[j].v = o.ev[Recvs(o)[n]].v)
P_LateGets(o) == \A g \in Gets(o) : (ClosedAt(o) # 0 /\ g > ClosedAt(o) /\ o.ev[g].k \notin {"closed", "empty"})
                   => \A j \in FiresOf(o, o.ev[g].d) : o.ev[j].how # "cb"
P_ErrOnlyAfterClosed(o) == \A j \in Fires(o) : o.ev[j].how = "eb" => (ClosedAt(o) # 0 /\ ClosedAt(o) < j)
P_OneShotAgree(o) == \A g \in Gets(o) : o.ev[g].k \in OSet => \A j \in FiresOf(o, o.ev[g].d) :
                        o.ev[j].how = "cb" => (FirstBelow(o, o.ev[g].k) # 0 /\ FirstBelow(o, o.ev[g].k) < j
                                               /\ o.ev[j].v = o.ev[FirstBelow(o, o.ev[g].k)].v)
\* close()'s Deferred carries the verdict; everything else fails with the exception (unhappy) or with WormholeClosed
P_ClosedVerdict(o) == \A g \in Gets(o) : \A j \in FiresOf(o, o.ev[g].d) :
    /\ (o.ev[g].k = "closed" => /\ ClosedAt(o) # 0 /\ ClosedAt(o) < j
                                /\ (o.ev[ClosedAt(o)].how = "happy" => (o.ev[j].how = "cb" /\ o.ev[j].v = 100))
                                /\ (o.ev[ClosedAt(o)].how = "err" => (o.ev[j].how = "eb" /\ o.ev[j].v = 101)))
    /\ ((o.ev[g].k \notin {"closed", "empty"} /\ o.ev[j].how = "eb" /\ ClosedAt(o) # 0)
          => o.ev[j].v = (IF o.ev[ClosedAt(o)].how = "happy" THEN 102 ELSE 101))
\* one FIFO queue: answers arrive in the order in which they were decided; none without a cause, none before it
P_FireOrder(o) == /\ \A g1, g2 \in Gets(o) : (Cause(o, g1) # 0 /\ Cause(o, g2) # 0 /\ Cause(o, g1) < Cause(o, g2))
                        => \A j1 \in FiresOf(o, o.ev[g1].d), j2 \in FiresOf(o, o.ev[g2].d) : j1 < j2
                  /\ \A g \in Gets(o) : \A j \in FiresOf(o, o.ev[g].d) : Cause(o, g) # 0 /\ Cause(o, g) < j
\* at rest (queue drained) everything that has an answer got it: nothing hangs, in particular nothing after closed
P_AtRest(o) == o.rest => \A g \in Gets(o) : Cause(o, g) # 0 => FiresOf(o, o.ev[g].d) # {}
P_NoInternal(o) == o.internal = <<>>

VARIABLE k
Init == k = 0
Next == k < Len(All) /\ k' = k + 1
        /\ PrintT(<<"OBS", All[k'].tid, <<P_OnceEach(All[k']), P_NotSync(All[k']), P_MsgFIFO(All[k']), P_LateGets(All[k']),
                                          P_ErrOnlyAfterClosed(All[k']), P_OneShotAgree(All[k']), P_ClosedVerdict(All[k']),
                                          P_FireOrder(All[k']), P_AtRest(All[k']), P_NoInternal(All[k'])>>>>)
Spec == Init /\ [][Next]_k
====
