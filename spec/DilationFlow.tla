---- MODULE DilationFlow ----
\* C15: Dilation flow control.
\*  Outbound (dilation/outbound.py): one L2 connection's send buffer back-pressures every producer registered
\*  on any subchannel: _paused, _all_producers (a rotating deque), _paused_producers / _unpaused_producers,
\*  pauseProducing / resumeProducing (a loop that wakes producers one at a time and that can be re-entered
\*  from inside a producer's turn), register / unregister, use_connection / stop_using_connection.
\*  Inbound (dilation/inbound.py): _paused_subchannels, subchannel_pauseProducing / resumeProducing /
\*  stopProducing, subchannel_closed, use_connection / stop_using_connection.
\* The resume loop is modelled one iteration per step (LoopStep) so that the transport's pause/resume
\* signals, registrations and closes can occur *inside* a producer's turn, as they do in the code.
EXTENDS Naturals, Sequences, FiniteSets, SequencesExt, TLC

CONSTANTS Producers,     \* producer ids (one per subchannel)
          MaxSteps,      \* bound on transport pause/resume signals
          MaxQueued      \* records the application may hand to Outbound (never acked here): what _queued_unsent re-sends

VARIABLES
  \* ---- outbound
  paused,        \* Outbound._paused
  conn,          \* a connection is in use
  deque,         \* _all_producers, left is next
  pset, uset,    \* _paused_producers, _unpaused_producers
  sig,           \* [Producers -> last signal the producer received: "none" | "pause" | "resume"]
  depth,         \* how many resumeProducing() loops are on the call stack
  turn,          \* the producer whose resumeProducing() is currently executing (re-entrant actions are its doing), or "-"
  turns,         \* [Producers -> number of turns received since the last drain started]
  steps,
  queued,        \* Len(Outbound._outbound_queue)
  unsent,        \* Len(Outbound._queued_unsent): still to be (re)sent on the current connection
  internal,
  \* ---- inbound
  open,          \* subchannels (same ids as producers) currently open
  wantPause,     \* subchannels whose application has asked for a pause and not taken it back
  ipaused,       \* Inbound._paused_subchannels
  iconn,         \* Inbound has a connection
  cpaused,       \* that connection's pauseProducing() is in force (we told the L2 transport to stop reading)
  last
vars == <<paused, conn, deque, pset, uset, sig, depth, turn, turns, steps, queued, unsent, internal, open, wantPause, ipaused, iconn, cpaused, last>>

Registered == {deque[i] : i \in 1..Len(deque)}

Init == /\ paused = TRUE /\ conn = FALSE /\ deque = <<>> /\ pset = {} /\ uset = {} /\ sig = [p \in Producers |-> "none"]
        /\ depth = 0 /\ turn = "-" /\ turns = [p \in Producers |-> 0] /\ steps = 0 /\ queued = 0 /\ unsent = 0 /\ internal = <<>>
        /\ open = Producers /\ wantPause = {} /\ ipaused = {} /\ iconn = FALSE /\ cpaused = FALSE
        /\ last = <<"Init", "-">>

OutUnch == UNCHANGED <<open, wantPause, ipaused, iconn, cpaused>>
InUnch == UNCHANGED <<paused, conn, deque, pset, uset, sig, depth, turn, turns, steps, queued, unsent, internal>>

\* Between two iterations of the loop no foreign code runs: while a loop is on the stack, the transport, the
\* application and the subchannels can only act from inside the turn of the producer that was just woken.
CanAct == depth = 0 \/ turn # "-"

\* ---- Outbound.pauseProducing(): every unpaused producer is paused, in deque order
DoPause == /\ paused' = TRUE
           /\ pset' = pset \cup uset /\ uset' = {}
           /\ sig' = [p \in Producers |-> IF p \in uset THEN "pause" ELSE sig[p]]
\* the transport's buffer filled (possibly while a producer is writing, i.e. inside its turn)
TransportPause == /\ conn /\ steps < MaxSteps /\ CanAct
                  /\ IF paused THEN UNCHANGED <<paused, pset, uset, sig>> ELSE DoPause
                  /\ steps' = steps + 1 /\ last' = <<"TransportPause", turn>>
                  /\ UNCHANGED <<conn, deque, depth, turn, turns, queued, unsent, internal>> /\ OutUnch

\* ---- Outbound.resumeProducing(): start (or re-enter) the wake-up loop
TransportResume == /\ conn /\ steps < MaxSteps /\ CanAct
                   /\ IF ~paused THEN UNCHANGED <<paused, depth, turns, turn>>
                      ELSE /\ paused' = FALSE /\ depth' = depth + 1
                           /\ turns' = IF depth = 0 THEN [p \in Producers |-> 0] ELSE turns
                           /\ turn' = "-"      \* the (nested) loop runs now; nothing else can act until it wakes someone
                   /\ steps' = steps + 1 /\ last' = <<"TransportResume", turn>>
                   /\ UNCHANGED <<conn, deque, pset, uset, sig, queued, unsent, internal>> /\ OutUnch

\* one iteration of the innermost loop: `while not self._paused:` ... _get_next_unpaused_producer
LoopStep ==
  /\ depth > 0
  /\ IF ~paused /\ unsent > 0
     THEN \* `if self._queued_unsent: send one; continue` - and the transport may say stop from inside send_record()
          \E full \in BOOLEAN :
            /\ (full => steps < MaxSteps)
            /\ unsent' = unsent - 1
            /\ IF full THEN DoPause /\ steps' = steps + 1 ELSE UNCHANGED <<paused, pset, uset, sig, steps>>
            /\ last' = <<"LoopSend", IF full THEN "full" ELSE "-">>
            /\ UNCHANGED <<deque, depth, turn, turns, queued, internal>>
     ELSE IF paused \/ pset = {}
     THEN \* the loop ends (paused again, or nobody left to wake): return to the caller
          /\ depth' = depth - 1 /\ turn' = "-"
          /\ last' = <<"LoopEnd", "-">>
          /\ UNCHANGED <<paused, deque, pset, uset, sig, turns, steps, queued, unsent, internal>>
     ELSE LET p == Head(deque) IN
          IF p \notin pset
          THEN \* assert p in self._paused_producers
               /\ internal' = Append(internal, "assert:_get_next_unpaused_producer") /\ depth' = 0 /\ turn' = "-"
               /\ last' = <<"LoopAssert", p>>
               /\ UNCHANGED <<paused, deque, pset, uset, sig, turns, steps, queued, unsent>>
          ELSE /\ deque' = Tail(deque) \o <<p>>
               /\ pset' = pset \ {p} /\ uset' = uset \cup {p}
               /\ sig' = [sig EXCEPT ![p] = "resume"] /\ turn' = p
               /\ turns' = [turns EXCEPT ![p] = @ + 1]
               /\ last' = <<"LoopStep", p>>
               /\ UNCHANGED <<paused, depth, steps, queued, unsent, internal>>
  /\ UNCHANGED conn /\ OutUnch

\* ---- registration (possibly from inside a producer's turn)
Register(p) == /\ p \notin Registered /\ p \in open /\ CanAct
               /\ deque' = Append(deque, p)
               /\ IF paused THEN pset' = pset \cup {p} /\ uset' = uset /\ sig' = [sig EXCEPT ![p] = "pause"]
                  ELSE uset' = uset \cup {p} /\ pset' = pset /\ sig' = sig
               /\ last' = <<"Register", p>>
               /\ UNCHANGED <<paused, conn, depth, turn, turns, steps, queued, unsent, internal>> /\ OutUnch
\* the application writes (Manager._queue_and_send): kept for re-sending; behind whatever still waits, else straight out
AppRecord == /\ queued < MaxQueued /\ CanAct
             /\ queued' = queued + 1
             /\ unsent' = IF conn /\ unsent > 0 THEN unsent + 1 ELSE unsent
             /\ last' = <<"AppRecord", turn>>
             /\ UNCHANGED <<paused, conn, deque, pset, uset, sig, depth, turn, turns, steps, internal>> /\ OutUnch
Unregister(p) == /\ p \in Registered /\ CanAct
                 /\ deque' = SelectSeq(deque, LAMBDA q : q # p)
                 /\ pset' = pset \ {p} /\ uset' = uset \ {p}
                 /\ sig' = [sig EXCEPT ![p] = "none"]
                 /\ last' = <<"Unregister", p>>
                 /\ UNCHANGED <<paused, conn, depth, turn, turns, steps, queued, unsent, internal>> /\ OutUnch

\* ---- connections
\* use_connection: registerProducer on the new transport, then resumeProducing()
UseConnection == /\ ~conn /\ depth = 0
                 /\ conn' = TRUE /\ iconn' = TRUE
                 /\ paused' = FALSE /\ depth' = 1 /\ turns' = [p \in Producers |-> 0]
                 /\ unsent' = queued                          \* _queued_unsent.extend(_outbound_queue)
                 /\ cpaused' = (ipaused # {})                 \* Inbound.use_connection: carry the pause over
                 /\ last' = <<"UseConnection", "-">>
                 /\ UNCHANGED <<deque, pset, uset, sig, turn, steps, queued, internal, open, wantPause, ipaused>>
\* stop_using_connection: pauseProducing()
StopUsingConnection == /\ conn /\ depth = 0
                       /\ conn' = FALSE /\ iconn' = FALSE /\ cpaused' = FALSE
                       /\ IF paused THEN UNCHANGED <<paused, pset, uset, sig>> ELSE DoPause
                       /\ unsent' = 0                           \* _queued_unsent.clear()
                       /\ last' = <<"StopUsingConnection", "-">>
                       /\ UNCHANGED <<deque, depth, turn, turns, steps, queued, internal, open, wantPause, ipaused>>

\* ---- inbound: a subchannel's application pauses / resumes / stops its transport
\* (an application may repeat itself: pausing what is paused, resuming what is not - the set of requests decides, not their count)
SubPause(s) == /\ s \in open /\ CanAct
               /\ wantPause' = wantPause \cup {s}
               /\ ipaused' = ipaused \cup {s}
               /\ cpaused' = IF iconn /\ ipaused = {} THEN TRUE ELSE cpaused
               /\ last' = <<"SubPause", s>>
               /\ UNCHANGED <<open, iconn>> /\ InUnch
SubResume(s) == /\ s \in open /\ CanAct
                /\ wantPause' = wantPause \ {s}
                /\ ipaused' = ipaused \ {s}
                /\ cpaused' = IF iconn /\ ipaused # {} /\ (ipaused \ {s}) = {} THEN FALSE ELSE cpaused
                /\ last' = <<"SubResume", s>>
                /\ UNCHANGED <<open, iconn>> /\ InUnch
\* stopProducing(): "no more data, please" - the connection is shared, so all it can mean is: this subchannel no longer holds it paused
SubStop(s) == /\ s \in open /\ CanAct
              /\ wantPause' = wantPause \ {s}
              /\ ipaused' = ipaused \ {s}
              /\ cpaused' = IF iconn /\ ipaused # {} /\ (ipaused \ {s}) = {} THEN FALSE ELSE cpaused
              /\ last' = <<"SubStop", s>>
              /\ UNCHANGED <<open, iconn>> /\ InUnch
\* the subchannel closes (both CLOSEs seen): Inbound.subchannel_closed + Outbound.subchannel_closed.
\* A closed subchannel's pause request dies with it: Inbound drops it from _paused_subchannels and, if it was
\* the last one, resumes the connection.
SubClosed(s) == /\ s \in open /\ CanAct
                /\ open' = open \ {s} /\ wantPause' = wantPause \ {s}
                /\ ipaused' = ipaused \ {s}
                /\ cpaused' = IF iconn /\ ipaused # {} /\ (ipaused \ {s}) = {} THEN FALSE ELSE cpaused
                /\ IF s \in Registered
                   THEN /\ deque' = SelectSeq(deque, LAMBDA q : q # s) /\ pset' = pset \ {s} /\ uset' = uset \ {s}
                        /\ sig' = [sig EXCEPT ![s] = "none"]
                   ELSE UNCHANGED <<deque, pset, uset, sig>>
                /\ last' = <<"SubClosed", s>>
                /\ UNCHANGED <<iconn, paused, conn, depth, turn, turns, steps, queued, unsent, internal>>

Next == TransportPause \/ TransportResume \/ LoopStep \/ UseConnection \/ StopUsingConnection \/ AppRecord
        \/ (\E p \in Producers : Register(p) \/ Unregister(p) \/ SubPause(p) \/ SubResume(p) \/ SubStop(p) \/ SubClosed(p))
Spec == Init /\ [][Next]_vars /\ WF_vars(LoopStep)

\* ---- properties -----------------------------------------------------------------------------------------------
\* the bookkeeping of Outbound._check_invariants
ThreeSets == pset \cap uset = {} /\ (pset \cup uset) = Registered
\* when the buffer is full, or there is no connection, every registered producer has been told to pause
AllPausedWhenPaused == (paused /\ depth = 0) => (uset = {} /\ \A p \in Registered : sig[p] = "pause")
NoConnMeansPaused == (~conn /\ depth = 0) => paused
\* nobody is resumed while paused
NoResumeWhilePaused == [][(\E p \in Producers : sig'[p] = "resume" /\ sig[p] # "resume") => ~paused]_vars
\* when the connection drains (and is not paused again) every paused producer is resumed ...
AllResumedAfterDrain == (~paused /\ depth = 0 /\ conn) => pset = {}
\* ... each getting a turn in rotation: whoever just had a turn goes to the back of the line
RotationFair == [][(last'[1] = "LoopStep") => (Len(deque') > 0 /\ deque'[Len(deque')] = last'[2])]_vars
NoInternal == internal = <<>>
\* nothing waits to be re-sent without a connection, and never more than is kept
UnsentSane == (~conn => unsent = 0) /\ unsent <= queued
\* inbound: the L2 connection is paused exactly while some open subchannel's application wants a pause
InboundExact == iconn => (cpaused <=> (wantPause # {}))
InboundCarried == ipaused = wantPause
LoopTerminates == []<>(depth = 0)
====
