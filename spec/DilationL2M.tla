---- MODULE DilationL2M ----
\* One Dilation L2 connection at the level of its three state machines on both ends (dilation/connection.py: _Framer,
\* _Record, DilatedConnectionProtocol), the transition tables taken from the working tree (Tables.tla: Tbl_FR, Tbl_REC,
\* Tbl_DCP), the meaning of each output written here from the source.  DilationL2.tla sees one direction as a token stream
\* under an adversary (C12's rejection clauses); this module sees the *conversation*: who writes what when - relay handshake,
\* prologue, Noise handshake, the Follower's KCM, the Connector's selection turn, the Leader's KCM, records that overtake the
\* Follower's selection turn and wait in _inbound_record_queue - and what each Manager is handed.  Supplementary to C12 / C11
\* (reported under coverage.supplementary; the harness validates recorded runs of real DilatedConnectionProtocol pairs
\* against it, harness/props/dil_l2m.py).
\*
\* A unit on the wire is one transport.write(): [t |-> kind, k |-> number] with kind "relayok", "prologue", "handshake", "kcm"
\* or "rec" (the k-th record its Manager wrote).  Both ends are honest; the environment chooses the order of connectionMade, deliveries,
\* selection turns and the Managers' writes, and may cut the link.
EXTENDS Naturals, Sequences, FiniteSets, TLC, Tables

CONSTANTS UseRelay,       \* BOOLEAN: both ends reach each other through a transit relay
          MaxRecords      \* records each Manager writes once it may

E == {"L", "F"}
Peer(e) == IF e = "L" THEN "F" ELSE "L"

VARIABLES fr, rec, dcp,   \* [E -> state] of _Framer, _Record, DilatedConnectionProtocol
          made,           \* [E -> BOOLEAN] connectionMade() has run
          wire,           \* [E -> Seq(unit)] in flight towards that end
          atRelay,        \* [E -> BOOLEAN] that end's relay handshake has reached the relay
          cand,           \* [E -> BOOLEAN] Connector.add_candidate() was called
          canRec,         \* [E -> BOOLEAN] _can_send_records
          inq,            \* [E -> Seq(k)] _inbound_record_queue
          toMgr,          \* [E -> Seq(k)] records handed to that end's Manager, in order
          nsent,          \* [E -> Nat] records that end's Manager has written
          up,             \* the link exists
          internal,       \* Seq of internal failures (NoTransition, assertion)
          last
vars == <<fr, rec, dcp, made, wire, atRelay, cand, canRec, inq, toMgr, nsent, up, internal, last>>

U(t) == [t |-> t, k |-> 0]
Rec(k) == [t |-> "rec", k |-> k]

Init == /\ fr = [e \in E |-> IF UseRelay THEN "want_relay" ELSE "want_prologue"]    \* (use_relay() is called before connectionMade)
        /\ rec = [e \in E |-> "no_role_set"] /\ dcp = [e \in E |-> "unselected"]
        /\ made = [e \in E |-> FALSE] /\ wire = [e \in E |-> <<>>] /\ atRelay = [e \in E |-> FALSE]
        /\ cand = [e \in E |-> FALSE] /\ canRec = [e \in E |-> FALSE]
        /\ inq = [e \in E |-> <<>>] /\ toMgr = [e \in E |-> <<>>] /\ nsent = [e \in E |-> 0]
        /\ up = TRUE /\ internal = <<>> /\ last = <<"Init", "-">>

\* ---- the tables ------------------------------------------------------------------------------------------------
Has(tbl, s, i) == <<s, i>> \in DOMAIN tbl
Nxt(tbl, s, i) == tbl[<<s, i>>].next
Outs(tbl, s, i) == tbl[<<s, i>>].outs
InSeq(x, s) == \E j \in 1..Len(s) : s[j] = x

\* what one end does with one complete token, as a record of the changes: a cascade through the three machines.
\* st: [fr, rec, dcp, out (units written to the peer), cand, inq, toMgr, err]
Start(e) == [fr |-> fr[e], rec |-> rec[e], dcp |-> dcp[e], out |-> <<>>, cand |-> cand[e], inq |-> inq[e], toMgr |-> toMgr[e], err |-> <<>>]

\* DilatedConnectionProtocol input
DcpIn(st, i, arg) ==
  IF ~Has(Tbl_DCP, st.dcp, i) THEN [st EXCEPT !.err = Append(@, "NoTransition:DCP." \o st.dcp \o "." \o i)]
  ELSE LET o == Outs(Tbl_DCP, st.dcp, i)
           s1 == [st EXCEPT !.dcp = Nxt(Tbl_DCP, st.dcp, i)]
           s2 == IF InSeq("add_candidate", o) THEN [s1 EXCEPT !.cand = TRUE] ELSE s1
           s3 == IF InSeq("queue_inbound_record", o) THEN [s2 EXCEPT !.inq = Append(@, arg)] ELSE s2
           s4 == IF InSeq("deliver_record", o) THEN [s3 EXCEPT !.toMgr = Append(@, arg)] ELSE s3
           s5 == IF InSeq("process_inbound_queue", o) THEN [s4 EXCEPT !.toMgr = @ \o s4.inq, !.inq = <<>>] ELSE s4
       IN s5

\* _Record.got_frame(frame) and what DilatedConnectionProtocol.dataReceived does with the token it yields
FrameIn(st, e, u) ==
  IF ~Has(Tbl_REC, st.rec, "got_frame") THEN [st EXCEPT !.err = Append(@, "NoTransition:REC." \o st.rec \o ".got_frame")]
  ELSE LET o == Outs(Tbl_REC, st.rec, "got_frame")
           s1 == [st EXCEPT !.rec = Nxt(Tbl_REC, st.rec, "got_frame")] IN
       IF InSeq("process_handshake", o)
       THEN \* the frame must be the peer's Noise handshake; anything else fails to decrypt: Disconnect
            IF u.t # "handshake" THEN [s1 EXCEPT !.err = Append(@, "Disconnect")]
            ELSE LET s2 == IF InSeq("ignore_and_send_handshake", o) THEN [s1 EXCEPT !.out = Append(@, U("handshake"))] ELSE s1
                 IN \* dataReceived: on a Handshake token the Follower sends its KCM
                    IF e = "F" THEN [s2 EXCEPT !.out = Append(@, U("kcm"))] ELSE s2
       ELSE \* decrypt_message: a second handshake does not decrypt
            IF u.t = "handshake" THEN [s1 EXCEPT !.err = Append(@, "Disconnect")]
            ELSE IF u.t = "kcm" THEN DcpIn(s1, "got_kcm", 0)
            ELSE DcpIn(s1, "got_record", u.k)

\* _Framer.parse on one whole unit
UnitIn(st, e, u) ==
  CASE st.fr = "want_relay" ->
         IF u.t # "relayok" THEN [st EXCEPT !.err = Append(@, "Disconnect")]
         ELSE LET o == Outs(Tbl_FR, "want_relay", "got_relay_ok") IN
              [st EXCEPT !.fr = Nxt(Tbl_FR, "want_relay", "got_relay_ok"),
                         !.out = IF InSeq("send_prologue", o) THEN Append(@, U("prologue")) ELSE @]
    [] st.fr = "want_prologue" ->
         IF u.t # "prologue" THEN [st EXCEPT !.err = Append(@, "Disconnect")]
         ELSE LET s1 == [st EXCEPT !.fr = Nxt(Tbl_FR, "want_prologue", "got_prologue")] IN
              \* add_and_unframe: Prologue token -> _Record.got_prologue()
              IF ~Has(Tbl_REC, s1.rec, "got_prologue") THEN [s1 EXCEPT !.err = Append(@, "NoTransition:REC." \o s1.rec \o ".got_prologue")]
              ELSE LET o == Outs(Tbl_REC, s1.rec, "got_prologue") IN
                   [s1 EXCEPT !.rec = Nxt(Tbl_REC, s1.rec, "got_prologue"),
                              !.out = IF InSeq("send_handshake", o) THEN Append(@, U("handshake")) ELSE @]
    [] st.fr = "want_frame" ->
         IF u.t \in {"relayok", "prologue", "junk"} THEN [st EXCEPT !.err = Append(@, "Disconnect")]
         ELSE FrameIn(st, e, u)
    [] OTHER -> [st EXCEPT !.err = Append(@, "unknown framer state")]

Dropped(st) == InSeq("Disconnect", st.err)
Hard(st) == SelectSeq(st.err, LAMBDA x : x # "Disconnect")

Commit(e, st, act) ==
  /\ fr' = [fr EXCEPT ![e] = st.fr] /\ rec' = [rec EXCEPT ![e] = st.rec] /\ dcp' = [dcp EXCEPT ![e] = st.dcp]
  /\ cand' = [cand EXCEPT ![e] = st.cand] /\ inq' = [inq EXCEPT ![e] = st.inq] /\ toMgr' = [toMgr EXCEPT ![e] = st.toMgr]
  /\ internal' = internal \o Hard(st)
  /\ last' = act

\* ---- environment -----------------------------------------------------------------------------------------------
\* connectionMade(): the role is set, the framer writes its first unit (relay handshake, or the prologue)
Made(e) ==
  /\ up /\ ~made[e]
  /\ made' = [made EXCEPT ![e] = TRUE]
  /\ LET role == IF e = "L" THEN "set_role_leader" ELSE "set_role_follower"
         o == Outs(Tbl_FR, fr[e], "connectionMade") IN
     /\ rec' = [rec EXCEPT ![e] = IF Has(Tbl_REC, rec[e], role) THEN Nxt(Tbl_REC, rec[e], role) ELSE @]
     /\ fr' = [fr EXCEPT ![e] = Nxt(Tbl_FR, fr[e], "connectionMade")]
     /\ atRelay' = [atRelay EXCEPT ![e] = InSeq("send_relay_handshake", o)]
     /\ wire' = IF InSeq("send_prologue", o) THEN [wire EXCEPT ![Peer(e)] = Append(@, U("prologue"))] ELSE wire
     /\ internal' = IF Has(Tbl_REC, rec[e], role) THEN internal ELSE Append(internal, "NoTransition:REC." \o rec[e] \o "." \o role)
  /\ last' = <<"Made", e>>
  /\ UNCHANGED <<dcp, cand, canRec, inq, toMgr, nsent, up>>

\* the relay has both handshakes: it tells both ends "ok" and from then on forwards
RelayPair ==
  /\ up /\ UseRelay /\ atRelay["L"] /\ atRelay["F"]
  /\ atRelay' = [e \in E |-> FALSE]
  /\ wire' = [e \in E |-> Append(wire[e], U("relayok"))]
  /\ last' = <<"RelayPair", "-">>
  /\ UNCHANGED <<fr, rec, dcp, made, cand, canRec, inq, toMgr, nsent, up, internal>>

\* the oldest unit in flight towards e arrives (whole)
Deliver(e) ==
  /\ up /\ made[e] /\ wire[e] # <<>>
  /\ LET st == UnitIn(Start(e), e, Head(wire[e])) IN
     /\ Commit(e, st, <<"Deliver", e>>)
     /\ IF Dropped(st)
        THEN up' = FALSE /\ wire' = [x \in E |-> <<>>]
        ELSE up' = up /\ wire' = [wire EXCEPT ![e] = Tail(@), ![Peer(e)] = @ \o st.out]
  /\ UNCHANGED <<made, atRelay, canRec, nsent>>

\* Connector.accept(c) turn: select_and_stop_remaining: c.select(manager); the Leader then writes its KCM;
\* manager.connector_connection_made(c)
Select(e) ==
  /\ up /\ cand[e] /\ dcp[e] = "selecting"
  /\ LET st == DcpIn(Start(e), "select", 0) IN
     /\ Commit(e, st, <<"Select", e>>)
     /\ canRec' = [canRec EXCEPT ![e] = st.dcp = "selected"]
     /\ wire' = IF e = "L" THEN [wire EXCEPT !["F"] = Append(@, U("kcm"))] ELSE wire
  /\ UNCHANGED <<made, atRelay, nsent, up>>

\* the Manager writes a record
Write(e) ==
  /\ up /\ canRec[e] /\ nsent[e] < MaxRecords
  /\ nsent' = [nsent EXCEPT ![e] = @ + 1]
  /\ wire' = [wire EXCEPT ![Peer(e)] = Append(@, Rec(nsent[e] + 1))]
  /\ last' = <<"Write", e>>
  /\ UNCHANGED <<fr, rec, dcp, made, atRelay, cand, canRec, inq, toMgr, up, internal>>

Cut == /\ up /\ up' = FALSE /\ wire' = [e \in E |-> <<>>] /\ last' = <<"Cut", "-">>
       /\ UNCHANGED <<fr, rec, dcp, made, atRelay, cand, canRec, inq, toMgr, nsent, internal>>

Next == RelayPair \/ Cut \/ \E e \in E : Made(e) \/ Deliver(e) \/ Select(e) \/ Write(e)
Fair == RelayPair \/ \E e \in E : Made(e) \/ Deliver(e) \/ Select(e) \/ Write(e)
Spec == Init /\ [][Next]_vars /\ WF_vars(Fair)

\* ---- properties ------------------------------------------------------------------------------------------------
\* two honest ends never drive each other's machines into a missing transition, and never drop each other
NoInternal == internal = <<>>
\* the Manager is handed records only by a selected connection, in the order written, each once
ManagerOnlySelected == \A e \in E : toMgr[e] # <<>> => dcp[e] = "selected"
InOrderOnce == \A e \in E : /\ Len(toMgr[e]) + Len(inq[e]) <= nsent[Peer(e)]
                            /\ \A j \in 1..Len(toMgr[e]) : toMgr[e][j] = j
                            /\ \A j \in 1..Len(inq[e]) : inq[e][j] = Len(toMgr[e]) + j
\* records wait only while that end's selection turn is pending
QueueOnlySelecting == \A e \in E : inq[e] # <<>> => dcp[e] = "selecting"
\* the Follower's end becomes a candidate only after the Leader selected this very connection (the Leader's KCM says so);
\* the Leader's only after the Follower proved the key (its KCM)
FollowerFollowsLeader == (dcp["F"] # "unselected") => dcp["L"] = "selected"
CandidateNeedsHandshake == \A e \in E : cand[e] => rec[e] = "want_message"
\* nobody writes records before being selected; the Leader's KCM precedes every record it writes
WriteOnlySelected == \A e \in E : nsent[e] > 0 => dcp[e] = "selected"
\* an end that drops the connection has a reason: with two honest ends there is none
NoDropWithoutCut == [][up /\ ~up' => last'[1] = "Cut"]_vars
\* left alone, the two ends get selected and everything written arrives
Converges == <>[](~up \/ (/\ dcp["L"] = "selected" /\ dcp["F"] = "selected"
                        /\ \A e \in E : Len(toMgr[e]) = MaxRecords))
====
