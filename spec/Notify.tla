---- MODULE Notify ----
\* The notification layer between the Boss and a Deferred-mode application: _DeferredWormhole's seven observers
\* (wormhole.py), OneShotObserver / SequenceObserver / EmptyableSet (observer.py) and the EventualQueue (eventual.py)
\* that every one of them fires through.  One action per public call (get_*(), close()'s Deferred, the from-below
\* got_*/received/closed calls, EmptyableSet's add/discard/when_next_empty), one per turn of the queue and one per
\* call run in a turn - an application acts re-entrantly from inside its callbacks, so everything else stays enabled
\* between two calls of a turn (inCb), but nothing happens between the start of a turn and its first call.
\* Anchored in C18 (events once each, closed last, get_*() after closed fails) and C03 (messages in order, once).
EXTENDS Naturals, Sequences, FiniteSets, SequencesExt, TLC

CONSTANTS MaxD,      \* Deferreds the application asks for
          MaxMsg,    \* messages handed up from below
          MaxBelow,  \* got_*() calls from below (a second one for the same observer is ignored by the code)
          MaxRaw,    \* eventual calls that raise (a stale Connector.accept(), a failing internal callback)
          Items,     \* members of the EmptyableSet ({}: not exercised)
          UseK       \* the latches this configuration exercises (a subset of Latches; traces use all of them)

OneShots == <<"welcome", "code", "key", "verifier", "versions">>     \* in the order closed() fails them
OSet == {OneShots[i] : i \in DOMAIN OneShots}
Latches == OSet \cup {"closed"}

VARIABLES os, osWait, sqRes, sqErr, sqWait, isClosed, eq, turn, inCb, dfr, nmsg, nbelow, nraw,
          eset, esObs, esWait, internal, fv, sched, fired, last
vars == <<os, osWait, sqRes, sqErr, sqWait, isClosed, eq, turn, inCb, dfr, nmsg, nbelow, nraw,
          eset, esObs, esWait, internal, fv, sched, fired, last>>

None == <<"none", 0>>
\* values are numbers (TLC compares what it stores): 1, 2, ... are payloads; the rest stand for "happy", the exception closed()
\* was given, WormholeClosed, and EmptyableSet's None
Happy == 100
Err == 101
WClosed == 102
Nil == 103
Init == /\ os = [k \in Latches |-> None] /\ osWait = [k \in Latches |-> <<>>]
        /\ sqRes = <<>> /\ sqErr = 0 /\ sqWait = <<>> /\ isClosed = FALSE
        /\ eq = <<>> /\ turn = <<>> /\ inCb = FALSE /\ dfr = <<>> /\ nmsg = 0 /\ nbelow = 0 /\ nraw = 0
        /\ eset = {} /\ esObs = FALSE /\ esWait = <<>> /\ internal = <<>>
        /\ fv = [k \in OSet |-> 0] /\ sched = <<>> /\ fired = <<>> /\ last = <<"init">>

Free == turn = <<>> \/ inCb                     \* outside a turn, or inside a callback of the running turn
CallsFor(ds, how, v) == [i \in 1..Len(ds) |-> <<how, ds[i], v>>]
NewD(k) == [kind |-> k, st |-> "pending", v |-> 0, late |-> isClosed]
Dof(calls) == [i \in 1..Len(calls) |-> calls[i][2]]
Schedule(calls) == /\ eq' = eq \o calls
                   /\ sched' = sched \o SelectSeq(Dof(calls), LAMBDA d : d > 0)

\* ---- the application asks (OneShotObserver.when_fired)
Get(k) == /\ Free /\ Len(dfr) < MaxD /\ k \in Latches
          /\ LET d == Len(dfr) + 1 IN
             /\ dfr' = Append(dfr, NewD(k))
             /\ IF os[k][1] = "none"
                  THEN osWait' = [osWait EXCEPT ![k] = Append(@, d)] /\ UNCHANGED <<eq, sched>>
                  ELSE /\ Schedule(<< <<IF os[k][1] = "val" THEN "cb" ELSE "eb", d, os[k][2]>> >>)
                       /\ UNCHANGED osWait
          /\ last' = <<"Get", k>>
          /\ UNCHANGED <<os, sqRes, sqErr, sqWait, isClosed, turn, inCb, nmsg, nbelow, nraw, eset, esObs, esWait, internal, fv, fired>>

\* ---- SequenceObserver.when_next_event
GetMsg == /\ Free /\ Len(dfr) < MaxD
          /\ LET d == Len(dfr) + 1 IN
             /\ dfr' = Append(dfr, NewD("msg"))
             /\ IF sqErr # 0 THEN Schedule(<< <<"eb", d, sqErr>> >>) /\ UNCHANGED <<sqRes, sqWait>>
                ELSE IF sqRes # <<>> THEN Schedule(<< <<"cb", d, Head(sqRes)>> >>) /\ sqRes' = Tail(sqRes) /\ UNCHANGED sqWait
                ELSE sqWait' = Append(sqWait, d) /\ UNCHANGED <<sqRes, eq, sched>>
          /\ last' = <<"GetMsg">>
          /\ UNCHANGED <<os, osWait, sqErr, isClosed, turn, inCb, nmsg, nbelow, nraw, eset, esObs, esWait, internal, fv, fired>>

\* ---- from below: got_welcome / got_code / got_key / got_verifier / got_versions (fire_if_not_fired)
Below(k, v) == /\ Free /\ ~isClosed /\ k \in OSet /\ nbelow < MaxBelow
               /\ nbelow' = nbelow + 1
               /\ IF os[k][1] = "none"
                    THEN /\ os' = [os EXCEPT ![k] = <<"val", v>>] /\ fv' = [fv EXCEPT ![k] = v]
                         /\ Schedule(CallsFor(osWait[k], "cb", v)) /\ osWait' = [osWait EXCEPT ![k] = <<>>]
                    ELSE UNCHANGED <<os, fv, eq, sched, osWait>>
               /\ last' = <<"Below", k, v>>
               /\ UNCHANGED <<sqRes, sqErr, sqWait, isClosed, turn, inCb, dfr, nmsg, nraw, eset, esObs, esWait, internal, fired>>

\* ---- from below: received(plaintext) (SequenceObserver.fire)
Received == /\ Free /\ ~isClosed /\ nmsg < MaxMsg
            /\ nmsg' = nmsg + 1
            /\ IF sqWait # <<>>
                 THEN /\ Schedule(<< <<"cb", Head(sqWait), Head(Append(sqRes, nmsg + 1))>> >>)
                      /\ sqRes' = Tail(Append(sqRes, nmsg + 1)) /\ sqWait' = Tail(sqWait)
                 ELSE sqRes' = Append(sqRes, nmsg + 1) /\ UNCHANGED <<sqWait, eq, sched>>
            /\ last' = <<"Received", nmsg + 1>>
            /\ UNCHANGED <<os, osWait, sqErr, isClosed, turn, inCb, dfr, nbelow, nraw, eset, esObs, esWait, internal, fv, fired>>

\* ---- from below: closed(result): "happy" (not an exception) or "err" (an exception)
FailAll(f) == LET calls == [i \in DOMAIN OneShots |-> CallsFor(osWait[OneShots[i]], "eb", f)] IN
              calls[1] \o calls[2] \o calls[3] \o calls[4] \o calls[5]
Closed(res) == /\ Free /\ ~isClosed /\ res \in {"happy", "err"}
               /\ isClosed' = TRUE
               /\ LET f == IF res = "err" THEN Err ELSE WClosed
                      cl == IF res = "err" THEN <<"err", Err>> ELSE IF os["closed"][1] = "none" THEN <<"val", Happy>> ELSE os["closed"]
                      cc == IF res = "err" THEN CallsFor(osWait["closed"], "eb", Err)
                            ELSE IF os["closed"][1] = "none" THEN CallsFor(osWait["closed"], "cb", Happy) ELSE <<>> IN
                  /\ os' = [k \in Latches |-> IF k = "closed" THEN cl ELSE <<"err", f>>]
                  /\ Schedule(cc \o FailAll(f) \o CallsFor(sqWait, "eb", f))
                  /\ osWait' = [k \in Latches |-> IF k = "closed" /\ cc = <<>> THEN osWait[k] ELSE <<>>]
                  /\ sqErr' = f /\ sqWait' = <<>>
               /\ last' = <<"Closed", res>>
               /\ UNCHANGED <<sqRes, turn, inCb, dfr, nmsg, nbelow, nraw, eset, esObs, esWait, internal, fv, fired>>

\* ---- something inside queues a call that raises
RawRaise == /\ Free /\ nraw < MaxRaw
            /\ nraw' = nraw + 1 /\ eq' = Append(eq, <<"raise", 0, nraw + 1>>)
            /\ last' = <<"RawRaise", nraw + 1>>
            /\ UNCHANGED <<os, osWait, sqRes, sqErr, sqWait, isClosed, turn, inCb, dfr, nmsg, nbelow, eset, esObs, esWait, internal, fv, sched, fired>>

\* ---- EventualQueue._turn
StartTurn == /\ turn = <<>> /\ eq # <<>>
             /\ turn' = eq /\ eq' = <<>> /\ inCb' = FALSE
             /\ last' = <<"StartTurn", Len(eq)>>
             /\ UNCHANGED <<os, osWait, sqRes, sqErr, sqWait, isClosed, dfr, nmsg, nbelow, nraw, eset, esObs, esWait, internal, fv, sched, fired>>

RunCall == /\ turn # <<>>
           /\ LET c == Head(turn) IN
              /\ IF c[1] = "raise" THEN UNCHANGED <<dfr, internal, fired>>
                 ELSE IF dfr[c[2]].st = "pending"
                      THEN /\ dfr' = [dfr EXCEPT ![c[2]].st = c[1], ![c[2]].v = c[3]]
                           /\ fired' = Append(fired, c[2]) /\ UNCHANGED internal
                      ELSE internal' = Append(internal, "AlreadyCalled") /\ UNCHANGED <<dfr, fired>>
              /\ last' = <<"Run", c[1], c[2], c[3]>>
           /\ turn' = Tail(turn) /\ inCb' = TRUE
           /\ UNCHANGED <<os, osWait, sqRes, sqErr, sqWait, isClosed, eq, nmsg, nbelow, nraw, eset, esObs, esWait, fv, sched>>

\* ---- EmptyableSet
SetAdd(x) == /\ Free /\ x \in Items /\ x \notin eset
             /\ eset' = eset \cup {x} /\ last' = <<"SetAdd", x>>
             /\ UNCHANGED <<os, osWait, sqRes, sqErr, sqWait, isClosed, eq, turn, inCb, dfr, nmsg, nbelow, nraw, esObs, esWait, internal, fv, sched, fired>>
SetDiscard(x) == /\ Free /\ x \in Items
                 /\ eset' = eset \ {x}
                 /\ IF esObs /\ eset' = {}
                      THEN Schedule(CallsFor(esWait, "cb", Nil)) /\ esObs' = FALSE /\ esWait' = <<>>
                      ELSE UNCHANGED <<eq, sched, esObs, esWait>>
                 /\ last' = <<"SetDiscard", x>>
                 /\ UNCHANGED <<os, osWait, sqRes, sqErr, sqWait, isClosed, turn, inCb, dfr, nmsg, nbelow, nraw, internal, fv, fired>>
WhenEmpty == /\ Free /\ Items # {} /\ Len(dfr) < MaxD
             /\ dfr' = Append(dfr, NewD("empty")) /\ esObs' = TRUE /\ esWait' = Append(esWait, Len(dfr) + 1)
             /\ last' = <<"WhenEmpty">>
             /\ UNCHANGED <<os, osWait, sqRes, sqErr, sqWait, isClosed, eq, turn, inCb, nmsg, nbelow, nraw, eset, internal, fv, sched, fired>>

Next == \/ \E k \in Latches \cap UseK : Get(k)
        \/ GetMsg
        \/ \E k \in OSet \cap UseK, v \in {1, 2} : Below(k, v)
        \/ Received
        \/ \E r \in {"happy", "err"} : Closed(r)
        \/ RawRaise \/ StartTurn \/ RunCall
        \/ \E x \in Items : SetAdd(x) \/ SetDiscard(x)
        \/ WhenEmpty
Spec == Init /\ [][Next]_vars /\ WF_vars(StartTurn) /\ WF_vars(RunCall)

\* ---------------------------------------------------------------------------------------------- properties
D == DOMAIN dfr
MsgDs == SelectSeq([i \in 1..Len(dfr) |-> i], LAMBDA d : dfr[d].kind = "msg")
Pending == eq \o turn
NoInternal == internal = <<>>
\* a Deferred is the target of at most one queued call, and of none once it has fired
CallsDistinct == /\ \A i, j \in DOMAIN Pending : (i # j /\ Pending[i][2] > 0) => Pending[i][2] # Pending[j][2]
                 /\ \A i \in DOMAIN Pending : Pending[i][2] > 0 => dfr[Pending[i][2]].st = "pending"
\* messages: the i-th get_message() answered with a message is answered with the i-th message handed up
MsgFIFO == \A i \in DOMAIN MsgDs : dfr[MsgDs[i]].st = "cb" => dfr[MsgDs[i]].v = i
MsgErrSticky == \A i, j \in DOMAIN MsgDs : (i < j /\ dfr[MsgDs[i]].st = "eb") => dfr[MsgDs[j]].st # "cb"
\* get_*() issued after closed never succeeds (messages received before are no longer retrievable)
LateGets == \A d \in D : (dfr[d].late /\ dfr[d].kind \notin {"closed", "empty"}) => dfr[d].st # "cb"
ErrOnlyAfterClosed == \A d \in D : dfr[d].st = "eb" => isClosed
OneShotAgree == \A d \in D : (dfr[d].kind \in OSet /\ dfr[d].st = "cb") => dfr[d].v = fv[dfr[d].kind]
ClosedVerdict == \A d, e \in D : (dfr[d].kind = "closed" /\ dfr[e].kind = "closed" /\ dfr[d].st # "pending" /\ dfr[e].st # "pending")
                                   => (dfr[d].st = dfr[e].st /\ dfr[d].v = dfr[e].v)
\* the queue is FIFO and loses nothing: Deferreds fire in the order in which their firing was decided
FireOrder == IsPrefix(fired, sched)
\* nothing waits although its answer is known
NoneLeftBehind == /\ \A k \in Latches : os[k][1] # "none" => osWait[k] = <<>>
                  /\ (sqRes # <<>> \/ sqErr # 0) => sqWait = <<>>
\* a Deferred is pending when handed out, and fires only inside a turn of the queue (never synchronously)
FiresOnlyInTurn == [][/\ \A d \in DOMAIN dfr' : d \notin DOMAIN dfr => dfr'[d].st = "pending"
                      /\ (\E d \in DOMAIN dfr : dfr'[d].st # dfr[d].st) => (turn # <<>> /\ turn' = Tail(turn))]_vars
\* after closed nothing hangs: every Deferred of the wormhole that is or will be handed out fires
NoHang == isClosed ~> (\A d \in D : dfr[d].kind # "empty" => dfr[d].st # "pending")
\* before closed, whatever has an answer gets it
Answered == [](\A k \in OSet : os[k][1] = "val" => <>(\A d \in D : dfr[d].kind = k => dfr[d].st # "pending"))
====
