#!/bin/sh
# usage: r10_confirm.sh <PROP>...   (tenth round: worktrees /tmp/r10/wt_<PROP>, snapshot /tmp/r10/verif_snap)
for P in "$@"; do
  SNAP=/tmp/r10/verif_snap /verif/tools/seed_confirm3.sh $P /tmp/r10/wt_$P ${P}_i > /tmp/r10/confirm_$P.out 2>&1
done
