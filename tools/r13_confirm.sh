#!/bin/sh
# usage: r13_confirm.sh <PROP>...   (thirteenth round: worktrees /tmp/r13/wt_<PROP>, snapshot /tmp/r13/verif_snap)
for P in "$@"; do
  SNAP=/tmp/r13/verif_snap /verif/tools/seed_confirm3.sh $P /tmp/r13/wt_$P ${P}_l > /tmp/r13/confirm_$P.out 2>&1
done
