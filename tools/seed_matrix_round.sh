#!/bin/sh
# usage: seed_matrix_round.sh <suffix> [tier] [parallel]   - as seed_matrix.sh, for the changes of one round (seeded/C*_<suffix>)
cd /verif
ls -d seeded/C*_$1 | xargs -P ${3:-3} -I{} sh -c 'd={}; n=$(basename $d); p=$(echo $n | cut -c1-3); k=$(LINES_MAX=100 ./tools/mutrun.sh $p $d/patch.diff '${2:-quick}' | grep -c "^VIOLATION property=$p"); echo "$n '${2:-quick}' violations_reported=$k" | tee $d/result_'${2:-quick}'.txt'
