#!/bin/sh
cd /verif
for p in "$@"; do s=$(date +%s); timeout 14000 ./check $p thorough > out/thorough_$p.log 2>&1; rc=$?; e=$(date +%s)
echo "$p rc=$rc $((e-s))s $(grep -c '^VIOLATION' out/thorough_$p.log) violations $(grep -c '^KNOWN-FINDING' out/thorough_$p.log) known"; done
