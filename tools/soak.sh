#!/bin/sh
# usage: soak.sh <tier> <seed-from> <seed-to> <props...>   - run checks with other seeds; report anything but rc=0
T=$1; A=$2; B=$3; shift 3
cd /verif
for s in $(seq $A $B); do for p in "$@"; do
  VERIF_EVIDENCE_DIR=/verif/out/evidence_soak VERIF_SEED=$s timeout 7200 ./check $p $T > out/soak_${p}_$s.log 2>&1; rc=$?
  echo "$p seed=$s rc=$rc $(grep -c '^VIOLATION' out/soak_${p}_$s.log) violations"
  [ $rc = 0 ] && rm -f out/soak_${p}_$s.log
done; done
