#!/bin/sh
# usage: seed_confirm2.sh <PROP> <worktree> <name>
# as seed_confirm.sh, but the check runs from a snapshot of the *committed* /verif (so that work in progress in the
# working tree neither helps nor disturbs it)
P=$1; W=$2; N=${3:-$P}; D=/verif/seeded/$N; LOG=$D/confirm.log
mkdir -p $D; : > $LOG
cd $W || exit 2
git checkout -q -- src 2>/dev/null; git apply patch.diff || { echo "patch does not apply"; exit 2; }
echo "== suite with change" >> $LOG
PYTHONPATH=$W/src /venv/bin/python -m pytest -q -p no:cacheprovider --timeout=900 src/wormhole/test 2>&1 | grep -E "passed|failed|error" | tail -1 >> $LOG
echo "== demo with change" >> $LOG
PYTHONPATH=$W/src /venv/bin/python -m pytest -q -p no:cacheprovider --timeout=300 demo_test.py 2>&1 | grep -E "passed|failed|error" | tail -1 >> $LOG
git apply -R patch.diff
echo "== demo without change" >> $LOG
PYTHONPATH=$W/src /venv/bin/python -m pytest -q -p no:cacheprovider --timeout=300 demo_test.py 2>&1 | grep -E "passed|failed|error" | tail -1 >> $LOG
git apply patch.diff
cp patch.diff demo_test.py $D/; cp NOTE.md $D/NOTE.md 2>/dev/null
M=/tmp/mut_$N; S=/tmp/verif_snap_$N; rm -rf $M $S; mkdir -p $M $S
rsync -a --exclude .git --exclude '*.pyc' /repo/ $M/; (cd $M && patch -p1 -s < $D/patch.diff) || { echo "patch does not apply to /repo copy"; exit 2; }
rsync -a ${SNAP:-/tmp/r9/verif_snap}/ $S/
echo "== ./check $P quick (committed /verif $(cat ${SNAP:-/tmp/r9/verif_snap}/.snaprev)) against the change" >> $LOG
cd $S; VERIF_REPO=$M timeout 1800 ./check $P quick > $D/check_quick.out 2>&1; echo "rc=$?" >> $LOG
grep -E "^(VIOLATION|KNOWN-FINDING|MACHINERY)" $D/check_quick.out | sed "s#$S#/verif#" | cut -c1-400 | head -5 >> $LOG
rm -rf $M $S
cat $LOG
