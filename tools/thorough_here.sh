#!/bin/sh
# run thorough-tier checks from the snapshot this script lives in (used with `vp run`); evidence kept apart
cd "$(dirname "$0")/.." || exit 2
./setup.sh > /dev/null
for p in "$@"; do s=$(date +%s); VERIF_EVIDENCE_DIR=$(pwd)/out/evidence_thorough timeout 14000 ./check $p thorough > out/thorough_$p.log 2>&1; rc=$?; e=$(date +%s)
echo "$p rc=$rc $((e-s))s $(grep -c '^VIOLATION' out/thorough_$p.log) violations $(grep -c '^KNOWN-FINDING' out/thorough_$p.log) known"; done
