#!/usr/bin/env python3
"""write seeded/<name>/meta.json from a small table (tools/seed_meta.py <table.json>); the confirm.log of
tools/seed_confirm2.sh supplies what was run"""
import json, os, sys
tab = json.load(open(sys.argv[1]))
for name, e in tab.items():
    d = os.path.join("/verif/seeded", name)
    log = [l.rstrip("\n") for l in open(os.path.join(d, "confirm.log"))] if os.path.exists(os.path.join(d, "confirm.log")) else []
    patch = open(os.path.join(d, "patch.diff")).read()
    files = [l.split(" b/")[-1].strip() for l in patch.splitlines() if l.startswith("diff --git")]
    meta = {
        "property": name[:3], "file": ", ".join(files), "change": e["change"], "needs_to_manifest": e["needs"],
        "produced_by": "sub-agent given only the property text, a list of the changes already tried for it, and its own scratch "
                       "worktree of /repo (never /verif)",
        "confirmed_by_me": {"how": "tools/seed_confirm2.sh: suite with the change, demo_test.py with and without, then ./check %s quick of the "
                                   "*committed* /verif against a scratch copy with patch.diff applied, before anything was strengthened" % name[:3],
                            "log": log},
        "first_result": e["first"], "strengthened_with": e.get("strengthened", "-"),
        "final_result": "see result_quick.txt (tools/seed_matrix.sh)",
        "apply": "git -C /repo apply /verif/seeded/%s/patch.diff; cd /verif && ./check %s quick; git -C /repo checkout -- ." % (name, name[:3]),
        "demonstration": "demo_test.py"}
    json.dump(meta, open(os.path.join(d, "meta.json"), "w"), indent=1, ensure_ascii=False)
    print("wrote", name)
