#!/bin/sh
# usage: seed_confirm.sh <PROP> [worktree] [name]   - confirm a seeded change in its scratch worktree and file it under seeded/<name>/
# (1) suite with the change  (2) demo with the change fails  (3) demo without passes  (4) our check against a scratch copy
P=$1; W=${2:-/tmp/seed_$P}; N=${3:-$P}; D=/verif/seeded/$N; LOG=$D/confirm.log
mkdir -p $D; : > $LOG
cd $W || exit 2
git checkout -q -- src 2>/dev/null; git apply patch.diff || { echo "patch does not apply"; exit 2; }
echo "== suite with change" >> $LOG
PYTHONPATH=$W/src /venv/bin/python -m pytest -q -p no:cacheprovider --timeout=900 src/wormhole/test 2>&1 | grep -E "passed|failed|error" | tail -1 >> $LOG
echo "== demo with change" >> $LOG
PYTHONPATH=$W/src /venv/bin/python -m pytest -q -p no:cacheprovider --timeout=300 demo_test.py 2>&1 | grep -E "passed|failed|error" | tail -1 >> $LOG
git apply -R patch.diff
echo "== demo without change" >> $LOG
PYTHONPATH=$W/src /venv/bin/python -m pytest -q -p no:cacheprovider --timeout=300 demo_test.py 2>&1 | grep -E "passed|failed|error" | tail -1 >> $LOG
echo "== suite without change" >> $LOG
git apply patch.diff
cp patch.diff demo_test.py $D/; cp NOTE.md $D/NOTE.md 2>/dev/null
M=/tmp/mut_$N; rm -rf $M; mkdir -p $M; rsync -a --exclude .git --exclude '*.pyc' /repo/ $M/; (cd $M && patch -p1 -s < $D/patch.diff) || { echo "patch does not apply to /repo copy"; exit 2; }
echo "== ./check $P quick against the change" >> $LOG
cd /verif; VERIF_REPO=$M timeout 1500 ./check $P quick > $D/check_quick.out 2>&1; echo "rc=$?" >> $LOG
grep -E "^(VIOLATION|KNOWN-FINDING|MACHINERY)" $D/check_quick.out | cut -c1-400 | head -5 >> $LOG
rm -rf $M
cat $LOG
