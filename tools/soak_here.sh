#!/bin/sh
# usage: soak_here.sh <tier> <seed-from> <seed-to> <props...>  - as soak.sh, from the snapshot this script lives in (vp run)
cd "$(dirname "$0")/.." || exit 2
./setup.sh > /dev/null
T=$1; A=$2; B=$3; shift 3
mkdir -p out
for s in $(seq $A $B); do for p in "$@"; do
  VERIF_EVIDENCE_DIR=$(pwd)/out/evidence_soak VERIF_SEED=$s timeout 7200 ./check $p $T > out/soak_${p}_$s.log 2>&1; rc=$?
  echo "$p seed=$s rc=$rc $(grep -c '^VIOLATION' out/soak_${p}_$s.log) violations $(grep '^VIOLATION' -A1 out/soak_${p}_$s.log | head -2 | tail -1 | cut -c1-300)"
done; done
