#!/bin/sh
# run every seeded change against the check of its property (scratch copy of /repo; /repo itself is not touched)
cd /verif
for d in seeded/C*/; do n=$(basename $d); p=$(echo $n | cut -c1-3)
  k=$(LINES_MAX=100 ./tools/mutrun.sh $p $d/patch.diff ${1:-quick} | grep -c "^VIOLATION property=$p")
  echo "$n ${1:-quick} violations_reported=$k" | tee $d/result_${1:-quick}.txt
done
