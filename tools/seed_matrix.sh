#!/bin/sh
# run every seeded change against the check of its property (scratch copy of /repo; /repo itself is not touched)
cd /verif
for d in seeded/C*/; do p=$(basename $d)
  n=$(LINES_MAX=100 ./tools/mutrun.sh $p $d/patch.diff ${1:-quick} | grep -c "^VIOLATION property=$p")
  echo "$p ${1:-quick} violations_reported=$n" | tee $d/result_${1:-quick}.txt
done
