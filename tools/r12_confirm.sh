#!/bin/sh
# usage: r12_confirm.sh <PROP>...   (twelfth round: worktrees /tmp/r12/wt_<PROP>, snapshot /tmp/r12/verif_snap)
for P in "$@"; do
  SNAP=/tmp/r12/verif_snap /verif/tools/seed_confirm3.sh $P /tmp/r12/wt_$P ${P}_k > /tmp/r12/confirm_$P.out 2>&1
done
