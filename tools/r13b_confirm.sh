#!/bin/sh
# usage: r13b_confirm.sh <PROP>...   (thirteenth round, second part: worktrees /tmp/r13b/wt_<PROP>, snapshot /tmp/r13b/verif_snap)
for P in "$@"; do
  SNAP=/tmp/r13b/verif_snap /verif/tools/seed_confirm3.sh $P /tmp/r13b/wt_$P ${P}_l > /tmp/r13b/confirm_$P.out 2>&1
done
