#!/bin/sh
# usage: r14_confirm.sh <PROP>...   (fourteenth round: worktrees /tmp/r14/wt_<PROP>, snapshot /tmp/r14/verif_snap)
for P in "$@"; do
  SNAP=/tmp/r14/verif_snap /verif/tools/seed_confirm3.sh $P /tmp/r14/wt_$P ${P}_m > /tmp/r14/confirm_$P.out 2>&1
done
