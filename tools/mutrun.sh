#!/bin/sh
# usage: mutrun.sh <PROP> <patch> [tier]  - run one check against a scratch copy of /repo with <patch> applied
P=$1; PATCH=$(readlink -f $2); T=${3:-quick}; M=/tmp/mutrun_$P_$$
rm -rf $M; mkdir -p $M; rsync -a --exclude .git --exclude '*.pyc' /repo/ $M/; (cd $M && patch -p1 -s < $PATCH) || exit 2
cd /verif; VERIF_REPO=$M timeout 3000 ./check $P $T 2>&1 | grep -E "^(VIOLATION|KNOWN-FINDING|MACHINERY)" | cut -c1-600 | head -${LINES_MAX:-4}; rc=$?
rm -rf $M
