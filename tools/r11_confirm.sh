#!/bin/sh
# usage: r11_confirm.sh <PROP>...   (eleventh round: worktrees /tmp/r11/wt_<PROP>, snapshot /tmp/r11/verif_snap)
for P in "$@"; do
  SNAP=/tmp/r11/verif_snap /verif/tools/seed_confirm3.sh $P /tmp/r11/wt_$P ${P}_j > /tmp/r11/confirm_$P.out 2>&1
done
